import Dia.Dict
/-! Helper lemmas about the ordered-map model of the dictionary. -/
namespace Dia

theorem Key.lt_irrefl (k : Key) : k.lt k = false := by
  cases k <;> simp [Key.lt, UInt32.lt_irrefl]

theorem Key.lt_trans {a b c : Key} (h1 : a.lt b = true) (h2 : b.lt c = true) : a.lt c = true := by
  cases a <;> cases b <;> cases c <;> simp_all [Key.lt]
  · exact UInt32.lt_trans h1 h2
  · rcases h1 with h1 | ⟨rfl, h1⟩ <;> rcases h2 with h2 | ⟨rfl, h2⟩
    · exact Or.inl (UInt32.lt_trans h1 h2)
    · exact Or.inl h1
    · exact Or.inl h2
    · exact Or.inr ⟨rfl, UInt32.lt_trans h1 h2⟩

theorem Key.lt_asymm {a b : Key} (h : a.lt b = true) : b.lt a = false := by
  cases hb : b.lt a with
  | false => rfl
  | true => have := Key.lt_trans h hb; rw [Key.lt_irrefl] at this; cases this

/-- trichotomy of the derived order -/
theorem Key.lt_total (a b : Key) : a = b ∨ a.lt b = true ∨ b.lt a = true := by
  cases a with
  | code x =>
    cases b with
    | code y =>
      rcases Nat.lt_trichotomy x.toNat y.toNat with h | h | h
      · exact Or.inr (Or.inl (by simpa [Key.lt, UInt32.lt_iff_toNat_lt] using h))
      · exact Or.inl (by rw [UInt32.toNat_inj.mp h])
      · exact Or.inr (Or.inr (by simpa [Key.lt, UInt32.lt_iff_toNat_lt] using h))
    | cv y w => exact Or.inr (Or.inl rfl)
  | cv x v =>
    cases b with
    | code y => exact Or.inr (Or.inr rfl)
    | cv y w =>
      rcases Nat.lt_trichotomy x.toNat y.toNat with h | h | h
      · exact Or.inr (Or.inl (by simp [Key.lt, UInt32.lt_iff_toNat_lt, h]))
      · have hxy : x = y := UInt32.toNat_inj.mp h
        subst hxy
        rcases Nat.lt_trichotomy v.toNat w.toNat with g | g | g
        · exact Or.inr (Or.inl (by simp [Key.lt, UInt32.lt_iff_toNat_lt, g]))
        · exact Or.inl (by rw [UInt32.toNat_inj.mp g])
        · exact Or.inr (Or.inr (by simp [Key.lt, UInt32.lt_iff_toNat_lt, g]))
      · exact Or.inr (Or.inr (by simp [Key.lt, UInt32.lt_iff_toNat_lt, h]))

/-- `get` after `insert`: the new definition under its own key, everything else untouched -/
theorem lookup_insert (l : List (Key × Def)) (k k' : Key) (d : Def) :
    lookupKV (insertKV l k d) k' = if k = k' then some d else lookupKV l k' := by
  induction l with
  | nil => simp [insertKV, lookupKV]
  | cons x xs ih =>
    obtain ⟨kx, dx⟩ := x
    simp only [insertKV]
    by_cases hk : kx = k
    · subst hk
      simp only [if_true, lookupKV]
      split <;> simp_all
    · rw [if_neg hk]
      by_cases hlt : k.lt kx = true
      · rw [if_pos hlt]
        simp only [lookupKV]
      · rw [if_neg hlt]
        simp only [lookupKV, ih]
        by_cases h3 : kx = k'
        · subst h3
          have : ¬ k = kx := fun e => hk e.symm
          simp [this]
        · simp [h3]

/-- keys strictly increasing (the `BTreeMap` invariant) -/
def SortedKV : List (Key × Def) → Prop
  | [] => True
  | x :: xs => (∀ y ∈ xs, x.1.lt y.1 = true) ∧ SortedKV xs

theorem mem_insertKV {l : List (Key × Def)} {k : Key} {d : Def} {y : Key × Def} (h : y ∈ insertKV l k d) :
    y = (k, d) ∨ y ∈ l := by
  induction l with
  | nil => simp [insertKV] at h; exact Or.inl h
  | cons x xs ih =>
    obtain ⟨kx, dx⟩ := x
    simp only [insertKV] at h
    split at h
    · cases h with
      | head => exact Or.inl rfl
      | tail _ h' => exact Or.inr (List.mem_cons_of_mem _ h')
    · split at h
      · cases h with
        | head => exact Or.inl rfl
        | tail _ h' => exact Or.inr h'
      · cases h with
        | head => exact Or.inr (List.mem_cons_self)
        | tail _ h' =>
          rcases ih h' with r | r
          · exact Or.inl r
          · exact Or.inr (List.mem_cons_of_mem _ r)

theorem sorted_insertKV (l : List (Key × Def)) (k : Key) (d : Def) (hs : SortedKV l) : SortedKV (insertKV l k d) := by
  induction l with
  | nil => simp [insertKV, SortedKV]
  | cons x xs ih =>
    obtain ⟨kx, dx⟩ := x
    obtain ⟨h1, h2⟩ := hs
    simp only [insertKV]
    split
    · rename_i hk
      subst hk
      exact ⟨h1, h2⟩
    · rename_i hne
      split
      · rename_i hlt
        refine ⟨?_, h1, h2⟩
        intro y hy
        cases hy with
        | head => exact hlt
        | tail _ hy' => exact Key.lt_trans hlt (h1 y hy')
      · rename_i hnlt
        refine ⟨?_, ih h2⟩
        intro y hy
        rcases mem_insertKV hy with r | r
        · subst r
          rcases Key.lt_total kx k with e | e | e
          · exact absurd e hne
          · exact e
          · simp only [e] at hnlt; exact absurd trivial hnlt
        · exact h1 y r

/-- in a sorted list every stored pair is what `get` returns for its key: nothing is shadowed -/
theorem lookup_of_mem {l : List (Key × Def)} (hs : SortedKV l) {k : Key} {d : Def} (h : (k, d) ∈ l) :
    lookupKV l k = some d := by
  induction l with
  | nil => cases h
  | cons x xs ih =>
    obtain ⟨kx, dx⟩ := x
    simp only [lookupKV]
    cases h with
    | head => simp
    | tail _ h' =>
      have hlt := hs.1 _ h'
      simp only at hlt
      split
      · rename_i he
        subst he
        rw [Key.lt_irrefl] at hlt; cases hlt
      · exact ih hs.2 h'

theorem mem_of_lookup {l : List (Key × Def)} {k : Key} {d : Def} (h : lookupKV l k = some d) : (k, d) ∈ l := by
  induction l with
  | nil => simp [lookupKV] at h
  | cons x xs ih =>
    obtain ⟨kx, dx⟩ := x
    simp only [lookupKV] at h
    split at h
    · rename_i he
      subst he
      cases h
      exact List.mem_cons_self
    · exact List.mem_cons_of_mem _ (ih h)

end Dia
