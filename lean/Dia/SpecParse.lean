import Dia.Spec
import Dia.Mask
/-! The reading side of the independent specification: which octets of an RFC 6733 encoding are significant (`mask`),
which content the wire can carry and the library can represent (`Valid`), typing by a dictionary, nesting depth, and
the relation `Parses dict bs s`: "an RFC 6733 reader extracts `s` from the octets `bs`" - `bs` is the encoding of `s`
up to AVP padding octets and the five reserved AVP flag bits. Nothing here mentions the model of the code. -/
namespace Dia.Spec

def SData.ty : SData → Ty
  | .address _ => .address | .ipv4 _ => .ipv4 | .ipv6 _ => .ipv6 | .identity _ => .identity | .uri _ => .uri
  | .enumerated _ => .enumerated | .float32 _ => .float32 | .float64 _ => .float64 | .grouped _ => .grouped
  | .integer32 _ => .integer32 | .integer64 _ => .integer64 | .octets _ => .octets | .time _ => .time
  | .unsigned32 _ => .unsigned32 | .unsigned64 _ => .unsigned64 | .utf8 _ => .utf8

def hdrSize (vendor : Option UInt32) : Nat := match vendor with | some _ => 12 | none => 8

mutual
def SData.mask : SData → List MK
  | .grouped ms => maskAvps ms
  | .address a => List.replicate (SData.address a).bytes.length .keep
  | .ipv4 b => List.replicate (SData.ipv4 b).bytes.length .keep
  | .ipv6 b => List.replicate (SData.ipv6 b).bytes.length .keep
  | .identity b => List.replicate (SData.identity b).bytes.length .keep
  | .uri b => List.replicate (SData.uri b).bytes.length .keep
  | .enumerated b => List.replicate (SData.enumerated b).bytes.length .keep
  | .float32 b => List.replicate (SData.float32 b).bytes.length .keep
  | .float64 b => List.replicate (SData.float64 b).bytes.length .keep
  | .integer32 b => List.replicate (SData.integer32 b).bytes.length .keep
  | .integer64 b => List.replicate (SData.integer64 b).bytes.length .keep
  | .octets b => List.replicate (SData.octets b).bytes.length .keep
  | .time t => List.replicate (SData.time t).bytes.length .keep
  | .unsigned32 b => List.replicate (SData.unsigned32 b).bytes.length .keep
  | .unsigned64 b => List.replicate (SData.unsigned64 b).bytes.length .keep
  | .utf8 b => List.replicate (SData.utf8 b).bytes.length .keep
/-- header octets count (of the flags octet only V, M, P), data as the type says, padding does not -/
def SAvp.mask : SAvp → List MK
  | .mk _ vendor _ _ d => maskHdr vendor ++ (d.mask ++ List.replicate (padTo4 d.bytes.length) .zero)
def maskAvps : List SAvp → List MK
  | [] => []
  | a :: as => a.mask ++ maskAvps as
end

def SMsg.mask (s : SMsg) : List MK := List.replicate 20 .keep ++ maskAvps s.avps

/-- what a value must satisfy to exist on the wire and in the library's value domain: address families 1, 2, 8 with 4,
16 and 1..15 octets, text is well-formed UTF-8, Time fits 32 bits -/
def SData.leafValid : SData → Prop
  | .address (.v4 b) => b.length = 4
  | .address (.v6 b) => b.length = 16
  | .address (.e164 s) => 1 ≤ s.length ∧ s.length ≤ 15 ∧ utf8Valid s = true
  | .ipv4 b => b.length = 4
  | .ipv6 b => b.length = 16
  | .identity s => utf8Valid s = true
  | .utf8 s => utf8Valid s = true
  | .time t => t < 4294967296
  | _ => True

mutual
def SData.Valid : SData → Prop
  | .grouped ms => ValidAvps ms
  | .address a => (SData.address a).leafValid
  | .ipv4 b => (SData.ipv4 b).leafValid
  | .ipv6 b => (SData.ipv6 b).leafValid
  | .identity b => (SData.identity b).leafValid
  | .utf8 b => (SData.utf8 b).leafValid
  | .time t => (SData.time t).leafValid
  | .uri _ => True | .enumerated _ => True | .float32 _ => True | .float64 _ => True
  | .integer32 _ => True | .integer64 _ => True | .octets _ => True | .unsigned32 _ => True | .unsigned64 _ => True
/-- ... and the AVP length fits its 24-bit field -/
def SAvp.Valid : SAvp → Prop
  | .mk _ vendor _ _ d => hdrSize vendor + d.bytes.length < 16777216 ∧ d.Valid
def ValidAvps : List SAvp → Prop
  | [] => True
  | a :: as => a.Valid ∧ ValidAvps as
end

mutual
def SData.Typed (dict : Lookup) : SData → Prop
  | .grouped ms => TypedAvps dict ms
  | .address _ => True | .ipv4 _ => True | .ipv6 _ => True | .identity _ => True | .uri _ => True
  | .enumerated _ => True | .float32 _ => True | .float64 _ => True | .integer32 _ => True | .integer64 _ => True
  | .octets _ => True | .time _ => True | .unsigned32 _ => True | .unsigned64 _ => True | .utf8 _ => True
/-- the dictionary entry for exactly this (code, vendor) pair declares the type of the data -/
def SAvp.Typed (dict : Lookup) : SAvp → Prop
  | .mk code vendor _ _ d => dict code vendor = d.ty ∧ d.Typed dict
def TypedAvps (dict : Lookup) : List SAvp → Prop
  | [] => True
  | a :: as => a.Typed dict ∧ TypedAvps dict as
end

mutual
def SData.depth : SData → Nat
  | .grouped ms => 1 + depthAvps ms
  | .address _ => 0 | .ipv4 _ => 0 | .ipv6 _ => 0 | .identity _ => 0 | .uri _ => 0
  | .enumerated _ => 0 | .float32 _ => 0 | .float64 _ => 0 | .integer32 _ => 0 | .integer64 _ => 0
  | .octets _ => 0 | .time _ => 0 | .unsigned32 _ => 0 | .unsigned64 _ => 0 | .utf8 _ => 0
def SAvp.depth : SAvp → Nat
  | .mk _ _ _ _ d => d.depth
def depthAvps : List SAvp → Nat
  | [] => 0
  | a :: as => max a.depth (depthAvps as)
end

/-- **"an RFC 6733 reader extracts `s` from `bs`"**: `s` is a message the library can represent (known command code
and application id, valid values, AVPs typed by the dictionary), `bs` has exactly the size of its encoding, and `bs`
equals that encoding on every significant octet and bit. -/
structure Parses (T : Tables) (dict : Lookup) (bs : Bytes) (s : SMsg) : Prop where
  cmd : T.cmdKnown s.cmd = true
  app : T.appKnown s.app = true
  valid : ValidAvps s.avps
  typed : TypedAvps dict s.avps
  small : (encode s).length < 16777216
  size : bs.length = (encode s).length
  masked : applyMask bs s.mask = encode s

end Dia.Spec
