import Dia.DictThm
/-! Dictionary histories, their abstract spec (the list of supplied definitions) and the refinement lemmas. -/
namespace Dia

inductive DOp
  | construct (docs : List Doc)      -- `Dictionary::new(&[doc, ...])`
  | load (doc : Doc)                 -- `load_xml`
  | add (d : Def)                    -- `add_avp`

def docDefs (doc : Doc) : List Def := doc.flatMap fun app => app.avps.map DocAvp.toDef

def DOp.apply (D : Dict) : DOp → Dict
  | .construct docs => docs.foldl Dict.loadDoc Dict.empty
  | .load doc => D.loadDoc doc
  | .add d => D.add d

def runD (ops : List DOp) : Dict := ops.foldl DOp.apply Dict.empty

/-- the spec state: every definition supplied since the last construction, oldest first -/
def DOp.supply (defs : List Def) : DOp → List Def
  | .construct docs => docs.flatMap docDefs
  | .load doc => defs ++ docDefs doc
  | .add d => defs ++ [d]

def supplied (ops : List DOp) : List Def := ops.foldl DOp.supply []

/-- the spec lookup: the most recently supplied definition for exactly that key -/
def specGet (defs : List Def) (k : Key) : Option Def := defs.reverse.find? (fun d => d.key = k)

theorem specGet_append_one (defs : List Def) (d : Def) (k : Key) :
    specGet (defs ++ [d]) k = if d.key = k then some d else specGet defs k := by
  simp only [specGet, List.reverse_append, List.reverse_cons, List.reverse_nil, List.nil_append, List.cons_append,
    List.find?_cons]
  by_cases h : d.key = k <;> simp [h]

/-- representation invariant of the concrete dictionary against a list of supplied definitions -/
structure Refines (l : List (Key × Def)) (defs : List Def) : Prop where
  get : ∀ k, lookupKV l k = specGet defs k
  sorted : SortedKV l
  keys : ∀ k d, (k, d) ∈ l → k = d.key

theorem refines_nil : Refines [] [] := ⟨fun _ => rfl, trivial, fun _ _ h => by cases h⟩

theorem refines_add {l : List (Key × Def)} {defs : List Def} (h : Refines l defs) (d : Def) :
    Refines (insertKV l d.key d) (defs ++ [d]) := by
  refine ⟨fun k => ?_, sorted_insertKV l _ d h.sorted, ?_⟩
  · rw [lookup_insert, specGet_append_one, h.get]
  · intro k x hx
    rcases mem_insertKV hx with r | r
    · cases r; rfl
    · exact h.keys k x r

theorem refines_addAll {l : List (Key × Def)} {defs : List Def} (h : Refines l defs) (ds : List Def) :
    Refines (ds.foldl (fun l d => insertKV l d.key d) l) (defs ++ ds) := by
  induction ds generalizing l defs with
  | nil => simpa using h
  | cons d ds ih =>
    simp only [List.foldl_cons]
    have := ih (refines_add h d)
    simpa using this

theorem loadApp_avps (D : Dict) (app : DocApp) :
    (D.loadApp app).avps = (app.avps.map DocAvp.toDef).foldl (fun l d => insertKV l d.key d) D.avps := by
  unfold Dict.loadApp
  simp only
  have hc : ∀ (cs : List (Nat × String)) (D : Dict),
      (cs.foldl (fun D c => { D with cmds := (c.2, c.1) :: D.cmds }) D).avps = D.avps := by
    intro cs
    induction cs with
    | nil => intro D; rfl
    | cons c cs ih => intro D; simp only [List.foldl_cons]; rw [ih]
  have ha : ∀ (as : List DocAvp) (D : Dict),
      (as.foldl (fun D a => D.add a.toDef) D).avps =
        (as.map DocAvp.toDef).foldl (fun l d => insertKV l d.key d) D.avps := by
    intro as
    induction as with
    | nil => intro D; rfl
    | cons a as ih => intro D; simp only [List.foldl_cons, List.map_cons]; rw [ih]; rfl
  rw [ha, hc]

theorem loadDoc_refines {D : Dict} {defs : List Def} (h : Refines D.avps defs) (doc : Doc) :
    Refines (D.loadDoc doc).avps (defs ++ docDefs doc) := by
  unfold Dict.loadDoc docDefs
  induction doc generalizing D defs with
  | nil => simpa using h
  | cons app apps ih =>
    simp only [List.foldl_cons, List.flatMap_cons]
    have h1 : Refines (D.loadApp app).avps (defs ++ app.avps.map DocAvp.toDef) := by
      rw [loadApp_avps]; exact refines_addAll h _
    have := ih h1
    simpa [List.append_assoc] using this

theorem construct_refines (docs : List Doc) :
    Refines (docs.foldl Dict.loadDoc Dict.empty).avps (docs.flatMap docDefs) := by
  have : ∀ (docs : List Doc) (D : Dict) (defs : List Def), Refines D.avps defs →
      Refines (docs.foldl Dict.loadDoc D).avps (defs ++ docs.flatMap docDefs) := by
    intro docs
    induction docs with
    | nil => intro D defs h; simpa using h
    | cons d ds ih =>
      intro D defs h
      simp only [List.foldl_cons, List.flatMap_cons]
      have := ih _ _ (loadDoc_refines h d)
      simpa [List.append_assoc] using this
  simpa using this docs Dict.empty [] refines_nil

end Dia
