/-! Model of the TLS decision glue in `src/transport/client.rs` / `server.rs` (C13): which parameters are handed to the
TLS library, given the configuration and the address, and what follows. The TLS library itself is a *parameter*
(`tlsLibAccepts`: DESIGN.md section 3); its assumed behaviour is "accept iff accept-invalid, or the chain is trusted
and the presented certificate names the domain asked for". Import-free. -/
namespace Dia.Tls

inductive Cert | good | wrongName | untrusted
deriving DecidableEq, Repr

inductive AddrKind | host | ip | ip6
deriving DecidableEq, Repr

structure Cell where
  clientTls : Bool
  verify : Bool
  serverTls : Bool
  cert : Cert
  addr : AddrKind
deriving DecidableEq, Repr

inductive Outcome | session | plain | refused
deriving DecidableEq, Repr

/-- `(before, after)` the last `:` of an address, if there is one (`str::rfind(':')`) -/
def splitLastColon (a : List Char) : Option (List Char × List Char) :=
  let r := a.reverse
  match r.dropWhile (· ≠ ':') with
  | [] => none
  | _ :: before => some (before.reverse, (r.takeWhile (· ≠ ':')).reverse)

/-- `DiameterClient::host_of`: the host part of `host:port`, without the brackets of an IPv6 literal -/
def hostOf (address : List Char) : List Char :=
  let h := match splitLastColon address with
    | some (before, after) => if after.contains ']' then address else before
    | none => address
  ((h.dropWhile (· = '[')).reverse.dropWhile (· = ']')).reverse

/- names as explicit character lists (string literals do not reduce well in the kernel) -/
def nLocalhost : List Char := ['l', 'o', 'c', 'a', 'l', 'h', 'o', 's', 't']
def nIp4 : List Char := ['1', '2', '7', '.', '0', '.', '0', '.', '1']
def nIp6 : List Char := [':', ':', '1']
def nIp6Bracketed : List Char := ['[', ':', ':', '1', ']']
def nOther : List Char := ['o', 't', 'h', 'e', 'r', '.', 'e', 'x', 'a', 'm', 'p', 'l', 'e']
def nOtherIp : List Char := ['1', '9', '2', '.', '0', '.', '2', '.', '7']

/-- the address the scenario hands to `DiameterClient::new` -/
def addressOf (k : AddrKind) (port : List Char) : List Char :=
  match k with
  | .host => nLocalhost ++ ':' :: port
  | .ip => nIp4 ++ ':' :: port
  | .ip6 => nIp6Bracketed ++ ':' :: port

/-- subject alternative names of the scenario's certificates -/
def sans : Cert → List (List Char)
  | .good => [nLocalhost, nIp4, nIp6]
  | .untrusted => [nLocalhost, nIp4, nIp6]
  | .wrongName => [nOther, nOtherIp]

def trusted : Cert → Bool
  | .untrusted => false
  | _ => true

/-- what the code passes to the TLS library -/
structure ClientParams where
  useTls : Bool
  acceptInvalid : Bool
  domain : List Char

def clientParams (c : Cell) (port : List Char) : ClientParams :=
  ⟨c.clientTls, !c.verify, hostOf (addressOf c.addr port)⟩

/-- assumed behaviour of the TLS library (parameter of the model) -/
def tlsLibAccepts (p : ClientParams) (cert : Cert) : Bool :=
  p.acceptInvalid || (trusted cert && (sans cert).contains p.domain)

def outcome (c : Cell) (port : List Char) : Outcome :=
  let p := clientParams c port
  match p.useTls, c.serverTls with
  | false, false => .plain
  | false, true => .refused          -- a TLS server never answers a plain-text request
  | true, false => .refused          -- a TLS client does not proceed without a session
  | true, true => if tlsLibAccepts p c.cert then .session else .refused

/-- does the client put Diameter octets on the socket in clear text? only when TLS is off -/
def clearText (c : Cell) : Bool := !c.clientTls

/-- the table the property states, written independently of the glue -/
def expected (c : Cell) : Outcome :=
  if !c.clientTls then (if !c.serverTls then .plain else .refused)
  else if !c.serverTls then .refused
  else if !c.verify then .session
  else match c.cert with
    | .good => .session
    | .wrongName => .refused
    | .untrusted => .refused

/-! ### any host, any certificate
The table above is what the scenarios run; the glue itself is not specific to three addresses. A certificate is whatever the
library sees of it: is its chain trusted, and which names does it carry. -/
structure GCert where
  trusted : Bool
  names : List (List Char)

def gLibAccepts (p : ClientParams) (cert : GCert) : Bool :=
  p.acceptInvalid || (cert.trusted && cert.names.contains p.domain)

/-- outcome for a client configured with `(useTls, verify)` and an arbitrary address, against a server with or without a TLS
identity presenting an arbitrary certificate -/
def gOutcome (useTls verify serverTls : Bool) (address : List Char) (cert : GCert) : Outcome :=
  match useTls, serverTls with
  | false, false => .plain
  | false, true => .refused
  | true, false => .refused
  | true, true => if gLibAccepts ⟨useTls, !verify, hostOf address⟩ cert then .session else .refused

end Dia.Tls
