import Dia.StreamThm
namespace Dia

def declaredLen (f : Bytes) : Nat := fromBe ((f.take 4).drop 1)

/-- a frame the stream reader and the decoder accept -/
structure Accepts (cfg : Cfg) (dict : Lookup) (f : Bytes) (m : Msg) : Prop where
  dec : decMsg cfg dict f = .ok m
  len : declaredLen f = f.length
  lo : 20 ≤ f.length
  hi : f.length ≤ 1048576

/-- C06, one frame: however the octets are segmented and wherever `Pending` is interleaved, one call returns the
message, consumes exactly the frame, and leaves a script that delivers exactly the rest -/
theorem Codec.decode_frame (cfg : Cfg) (dict : Lookup) (evs : List REv) (f more : Bytes) (m : Msg)
    (hne : noEmpty evs) (hflat : flat evs = f ++ more) (ha : Accepts cfg dict f m) :
    ∃ evs', Codec.decode cfg dict evs = ⟨.ok m, evs', f.length⟩ ∧ flat evs' = more ∧ noEmpty evs' := by
  obtain ⟨hdec, hlen, hlo, hhi⟩ := ha
  have h4 : 4 ≤ (flat evs).length := by rw [hflat]; simp; omega
  obtain ⟨evs1, r1, f1, n1⟩ := readExact_flat 4 evs hne h4
  have hp : (flat evs).take 4 = f.take 4 := by rw [hflat, List.take_append_of_le_length (by omega)]
  have hL : fromBe (((flat evs).take 4).drop 1) = f.length := by rw [hp]; exact hlen
  have hrest : f.length - 4 ≤ (flat evs1).length := by rw [f1, hflat]; simp; omega
  obtain ⟨evs2, r2, f2, n2⟩ := readExact_flat (f.length - 4) evs1 n1 hrest
  refine ⟨evs2, ?_, ?_, n2⟩
  · unfold Codec.decode
    rw [r1]
    simp only [hL]
    rw [if_neg (by omega), if_neg (by omega), if_neg (by omega), r2]
    simp only
    have hbody : (flat evs).take 4 ++ (flat evs1).take (f.length - 4) = f := by
      rw [f1, hflat, List.take_append_of_le_length (by omega), List.drop_append_of_le_length (by omega),
        List.take_append_of_le_length (by simp)]
      have : (f.drop 4).take (f.length - 4) = f.drop 4 := List.take_of_length_le (by simp)
      rw [this]; simp
    rw [hbody, hdec]
    simp only [DecRes.mk.injEq, true_and]
    simp; omega
  · rw [f2, f1, hflat, List.drop_append_of_le_length (by omega)]
    have hl : (f.drop 4).length = f.length - 4 := by simp
    rw [← hl, List.drop_append_of_le_length (Nat.le_refl _)]
    simp; omega

end Dia
