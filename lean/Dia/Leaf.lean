import Dia.Inv
namespace Dia

theorem decLeaf_fixed {cfg : Cfg} {ty : Ty} {n vl : Nat} {c c' : Cur} {v : Value}
    (hn : fixedSize ty = some n) (h : decLeaf cfg ty vl c = .ok (v, c')) :
    ∃ b, c.read n = .ok (b, c') ∧ v = ofFixed ty b := by
  unfold decLeaf at h
  rw [hn] at h
  simp only at h
  split at h
  · cases h
  · split at h
    · cases h
    · rw [Out.bind_eq_ok] at h
      obtain ⟨⟨b, c2⟩, hr, h⟩ := h
      dsimp only at h
      cases h
      exact ⟨b, hr, rfl⟩

theorem UInt64.toNat_ofNat_lt' {n : Nat} (h : n < 18446744073709551616) : (n.toUInt64).toNat = n := by
  simp [Nat.toUInt64, Nat.mod_eq_of_lt h]

/-- facts about the value a fixed-size decoder builds from exactly `n` octets -/
theorem ofFixed_facts {ty : Ty} {n : Nat} {b : Bytes} (hn : fixedSize ty = some n) (hb : b.length = n) :
    tyOf (ofFixed ty b) = ty ∧ (ofFixed ty b).len = n ∧ (ofFixed ty b).WF ∧ (ofFixed ty b).Cons ∧ (ofFixed ty b).NoLie ∧
    (ofFixed ty b).enc = ⟨b, none⟩ ∧ (ofFixed ty b).mask = List.replicate n .keep := by
  cases ty <;> simp only [fixedSize, Option.some.injEq, reduceCtorEq] at hn <;> subst hn
  case ipv4 => simp [ofFixed, tyOf, Value.len, Value.WF, Value.leafWF, Value.Cons, Value.NoLie, Value.enc, Enc.ok, Value.mask, hb]
  case ipv6 => simp [ofFixed, tyOf, Value.len, Value.WF, Value.leafWF, Value.Cons, Value.NoLie, Value.enc, Enc.ok, Value.mask, hb]
  case enumerated =>
    obtain ⟨a0,a1,a2,a3,rfl⟩ := list_len4 hb
    simp [ofFixed, tyOf, Value.len, Value.WF, Value.Cons, Value.NoLie, Value.enc, Enc.ok, Value.mask,
      UInt32.toNat_ofNat_of_lt' (fromBe4_lt _ _ _ _), be32_fromBe]
  case float32 =>
    obtain ⟨a0,a1,a2,a3,rfl⟩ := list_len4 hb
    simp [ofFixed, tyOf, Value.len, Value.WF, Value.Cons, Value.NoLie, Value.enc, Enc.ok, Value.mask,
      UInt32.toNat_ofNat_of_lt' (fromBe4_lt _ _ _ _), be32_fromBe]
  case integer32 =>
    obtain ⟨a0,a1,a2,a3,rfl⟩ := list_len4 hb
    simp [ofFixed, tyOf, Value.len, Value.WF, Value.Cons, Value.NoLie, Value.enc, Enc.ok, Value.mask,
      UInt32.toNat_ofNat_of_lt' (fromBe4_lt _ _ _ _), be32_fromBe]
  case unsigned32 =>
    obtain ⟨a0,a1,a2,a3,rfl⟩ := list_len4 hb
    simp [ofFixed, tyOf, Value.len, Value.WF, Value.Cons, Value.NoLie, Value.enc, Enc.ok, Value.mask,
      UInt32.toNat_ofNat_of_lt' (fromBe4_lt _ _ _ _), be32_fromBe]
  case float64 =>
    obtain ⟨a0,a1,a2,a3,a4,a5,a6,a7,rfl⟩ := list_len8 hb
    simp [ofFixed, tyOf, Value.len, Value.WF, Value.Cons, Value.NoLie, Value.enc, Enc.ok, Value.mask,
      UInt64.toNat_ofNat_lt' (fromBe8_lt _ _ _ _ _ _ _ _), be64_fromBe]
  case integer64 =>
    obtain ⟨a0,a1,a2,a3,a4,a5,a6,a7,rfl⟩ := list_len8 hb
    simp [ofFixed, tyOf, Value.len, Value.WF, Value.Cons, Value.NoLie, Value.enc, Enc.ok, Value.mask,
      UInt64.toNat_ofNat_lt' (fromBe8_lt _ _ _ _ _ _ _ _), be64_fromBe]
  case unsigned64 =>
    obtain ⟨a0,a1,a2,a3,a4,a5,a6,a7,rfl⟩ := list_len8 hb
    simp [ofFixed, tyOf, Value.len, Value.WF, Value.Cons, Value.NoLie, Value.enc, Enc.ok, Value.mask,
      UInt64.toNat_ofNat_lt' (fromBe8_lt _ _ _ _ _ _ _ _), be64_fromBe]
  case time =>
    obtain ⟨a0,a1,a2,a3,rfl⟩ := list_len4 hb
    have hlt := fromBe4_lt a0 a1 a2 a3
    have hR : RFC868 = 2208988800 := rfl
    refine ⟨rfl, rfl, ?_, trivial, trivial, ?_, rfl⟩
    · simp only [ofFixed, Value.WF, Value.leafWF]; refine ⟨trivial, ?_, ?_⟩ <;> omega
    · simp only [ofFixed, Value.enc]
      rw [if_neg (by omega), if_neg (by omega)]
      have e : (((fromBe [a0,a1,a2,a3] : Nat) : Int) - RFC868 + RFC868).toNat = fromBe [a0,a1,a2,a3] := by omega
      rw [e]
      simp [Enc.ok, be32_fromBe]

end Dia
