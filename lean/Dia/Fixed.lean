import Dia.Dump
/-! Observables of the fixed-size data types for C17: what the public accessors show (`value()`, `to_bits()`,
`timestamp()`, the dotted quad) and a checksum fold over a range of wire values (the harness folds the real
`decode_from -> observable -> encode_to` over the same range). -/
namespace Dia

def ty4 : List Ty := [.unsigned32, .integer32, .enumerated, .float32, .time, .ipv4]
def ty8 : List Ty := [.unsigned64, .integer64, .float64]

/-- dotted-quad text of four octets -/
def dotted : Bytes → String
  | [a, b, c, d] => toString a.toNat ++ "." ++ toString b.toNat ++ "." ++ toString c.toNat ++ "." ++ toString d.toNat
  | _ => "?"

/-- two's complement of a (small) integer in 64 bits, without big-number arithmetic -/
def i64bits (i : Int) : UInt64 := if i ≥ 0 then i.toNat.toUInt64 else 0 - ((-i).toNat.toUInt64)

/-- the observable as one 64-bit number (signed values in two's complement) -/
def Value.obsNum : Value → UInt64
  | .unsigned32 v => v.toUInt64
  | .integer32 v => i64bits (toI32 v)
  | .enumerated v => i64bits (toI32 v)
  | .float32 v => v.toUInt64
  | .time s _ => i64bits s
  | .ipv4 b => (fromBe b).toUInt64
  | .unsigned64 v => v
  | .integer64 v => v
  | .float64 v => v
  | _ => 0

def wireOf (ty : Ty) (v : Nat) : Bytes := if (fixedSize ty).getD 4 = 8 then be64 v else be32 v

def mixK : UInt64 := 6364136223846793005

/-- checksum of `decode -> observable -> encode` over wire values `lo .. lo+n-1` -/
def sweepFold (ty : Ty) : Nat → Nat → UInt64 → UInt64
  | 0, _, h => h
  | n+1, v, h =>
    let val := ofFixed ty (wireOf ty v)
    let e := val.enc
    let eNum : UInt64 := match e.err with | none => (fromBe e.bytes).toUInt64 | some _ => 0xdeadbeef
    sweepFold ty n (v+1) ((h * mixK + val.obsNum) * mixK + eNum)

def fxLine (ty : Ty) (bs : Bytes) : String :=
  let val := ofFixed ty bs
  let shown := match val with
    | .ipv4 b => "ipv4:" ++ dotted b
    | .ipv6 b => "ipv6:" ++ hex b
    | v => v.dump
  shown ++ " " ++ (match val.enc.err with | none => hexOrDash val.enc.bytes | some _ => "encerr")

end Dia
