import Dia.Leaf
namespace Dia

/-- what inversion of a leaf decoder delivers -/
def LeafInv (ty : Ty) (vl : Nat) (c c' : Cur) (v : Value) : Prop :=
  tyOf v = ty ∧ v.len = vl ∧ v.WF ∧ v.Cons ∧ v.NoLie ∧ (c'.isIn ↔ c.isIn) ∧
  (∀ r', c' = .inRange r' → ∃ vb, c = .inRange (vb ++ r') ∧ vb.length = vl ∧ v.enc = ⟨vb, none⟩ ∧
      v.mask = List.replicate vl .keep)

theorem read_leaf {c c' : Cur} {n : Nat} {b : Bytes} (hr : c.read n = .ok (b, c')) :
    b.length = n ∧ (c'.isIn ↔ c.isIn) ∧ (∀ r', c' = .inRange r' → c = .inRange (b ++ r')) := by
  obtain ⟨h1, h2, h3⟩ := Cur.read_spec hr
  refine ⟨h1, h2, ?_⟩
  intro r' hr'
  obtain ⟨r, hc, he⟩ := h3 r' hr'
  rw [hc, he]

theorem decAddr_inv {vl : Nat} {c c' : Cur} {v : Value} (h : decAddr vl c = .ok (v, c')) :
    LeafInv .address vl c c' v := by
  unfold decAddr at h
  rw [Out.bind_eq_ok] at h
  obtain ⟨⟨f, c1⟩, hr, h⟩ := h
  dsimp only at h
  obtain ⟨hl2, hin1, hrest1⟩ := read_leaf hr
  obtain ⟨f0, f1, rfl⟩ := list_len2 hl2
  split at h
  · -- ipv4
    split at h
    · cases h
    · rename_i hvl
      rw [Out.bind_eq_ok] at h
      obtain ⟨⟨b, c2⟩, hr2, h⟩ := h
      dsimp only at h
      cases h
      obtain ⟨hl4, hin2, hrest2⟩ := read_leaf hr2
      have hvl' : vl = 6 := by omega
      refine ⟨rfl, by simp [Value.len, hvl'], by simp [Value.WF, Value.leafWF, hl4], trivial, trivial, hin2.trans hin1, ?_⟩
      intro r' hr'
      have h1 := hrest2 r' hr'
      have h0 := hrest1 _ h1
      rename_i heq
      cases heq
      refine ⟨[0, 1] ++ b, by rw [h0]; simp, by simp [hl4, hvl'], by simp [Value.enc, Enc.ok], by simp [Value.mask, Value.len, hvl']⟩
  · -- ipv6
    split at h
    · cases h
    · rename_i hvl
      rw [Out.bind_eq_ok] at h
      obtain ⟨⟨b, c2⟩, hr2, h⟩ := h
      dsimp only at h
      cases h
      obtain ⟨hl16, hin2, hrest2⟩ := read_leaf hr2
      have hvl' : vl = 18 := by omega
      refine ⟨rfl, by simp [Value.len, hvl'], by simp [Value.WF, Value.leafWF, hl16], trivial, trivial, hin2.trans hin1, ?_⟩
      intro r' hr'
      have h1 := hrest2 r' hr'
      have h0 := hrest1 _ h1
      rename_i heq
      cases heq
      refine ⟨[0, 2] ++ b, by rw [h0]; simp, by simp [hl16, hvl'], by simp [Value.enc, Enc.ok], by simp [Value.mask, Value.len, hvl']⟩
  · -- e164
    split at h
    · cases h
    · split at h
      · cases h
      · rename_i hhi hlo
        unfold checkedSub at h
        rw [if_neg (by omega)] at h
        simp only [Out.bind_ok] at h
        split at h
        · cases h
        · rw [Out.bind_eq_ok] at h
          obtain ⟨⟨b, c2⟩, hr2, h⟩ := h
          dsimp only at h
          split at h
          · rename_i hutf
            cases h
            obtain ⟨hlb, hin2, hrest2⟩ := read_leaf hr2
            refine ⟨rfl, by simp [Value.len, hlb]; omega, by simp [Value.WF, Value.leafWF, hlb, hutf]; omega, trivial, trivial, hin2.trans hin1, ?_⟩
            intro r' hr'
            have h1 := hrest2 r' hr'
            have h0 := hrest1 _ h1
            rename_i heq _
            cases heq
            refine ⟨[0, 8] ++ b, by rw [h0]; simp, by simp [hlb]; omega, by simp [Value.enc, Enc.ok], by simp [Value.mask, Value.len, hlb]; omega⟩
          · cases h
  · cases h

theorem decLeaf_inv {cfg : Cfg} {ty : Ty} {vl : Nat} {c c' : Cur} {v : Value}
    (h : decLeaf cfg ty vl c = .ok (v, c')) (hfix : ∀ n, fixedSize ty = some n → vl = n) :
    LeafInv ty vl c c' v := by
  cases hf : fixedSize ty with
  | some n =>
    have hvl := hfix n hf
    subst hvl
    obtain ⟨b, hr, rfl⟩ := decLeaf_fixed hf h
    obtain ⟨hlb, hin, hrest⟩ := read_leaf hr
    obtain ⟨f1, f2, f3, f4, f5, f6, f7⟩ := ofFixed_facts hf hlb
    exact ⟨f1, f2, f3, f4, f5, hin, fun r' hr' => ⟨b, hrest r' hr', hlb, f6, f7⟩⟩
  | none =>
    unfold decLeaf at h
    rw [hf] at h
    simp only at h
    cases ty <;> simp only [fixedSize, reduceCtorEq] at hf <;> simp only at h
    case address => exact decAddr_inv h
    case utf8 =>
      rw [Out.bind_eq_ok] at h
      obtain ⟨⟨b, c2⟩, hr, h⟩ := h
      dsimp only at h
      split at h
      · rename_i hutf
        cases h
        obtain ⟨hlb, hin, hrest⟩ := read_leaf hr
        exact ⟨rfl, by simp [Value.len, hlb], by simp [Value.WF, Value.leafWF, hutf], trivial, trivial, hin,
          fun r' hr' => ⟨b, hrest r' hr', hlb, by simp [Value.enc, Enc.ok], by simp [Value.mask, Value.len, hlb]⟩⟩
      · cases h
    case identity =>
      rw [Out.bind_eq_ok] at h
      obtain ⟨⟨b, c2⟩, hr, h⟩ := h
      dsimp only at h
      split at h
      · rename_i hutf
        cases h
        obtain ⟨hlb, hin, hrest⟩ := read_leaf hr
        exact ⟨rfl, by simp [Value.len, hlb], by simp [Value.WF, Value.leafWF, hutf], trivial, trivial, hin,
          fun r' hr' => ⟨b, hrest r' hr', hlb, by simp [Value.enc, Enc.ok], by simp [Value.mask, Value.len, hlb]⟩⟩
      · cases h
    case octets =>
      rw [Out.bind_eq_ok] at h
      obtain ⟨⟨b, c2⟩, hr, h⟩ := h
      dsimp only at h
      cases h
      obtain ⟨hlb, hin, hrest⟩ := read_leaf hr
      exact ⟨rfl, by simp [Value.len, hlb], trivial, trivial, trivial, hin,
        fun r' hr' => ⟨b, hrest r' hr', hlb, by simp [Value.enc, Enc.ok], by simp [Value.mask, Value.len, hlb]⟩⟩
    case uri =>
      rw [Out.bind_eq_ok] at h
      obtain ⟨⟨b, c2⟩, hr, h⟩ := h
      dsimp only at h
      cases h
      obtain ⟨hlb, hin, hrest⟩ := read_leaf hr
      exact ⟨rfl, by simp [Value.len, hlb], trivial, trivial, trivial, hin,
        fun r' hr' => ⟨b, hrest r' hr', hlb, by simp [Value.enc, Enc.ok], by simp [Value.mask, Value.len, hlb]⟩⟩
    case grouped => cases h
    case unknown => cases h

end Dia
