import Dia.NoPanic
namespace Dia

mutual
def Value.sz : Value → Nat
  | .grouped ms => 1 + szList ms
  | .address _ => 0 | .ipv4 _ => 0 | .ipv6 _ => 0 | .identity _ => 0 | .uri _ => 0
  | .enumerated _ => 0 | .float32 _ => 0 | .float64 _ => 0 | .integer32 _ => 0 | .integer64 _ => 0
  | .octets _ => 0 | .time _ _ => 0 | .unsigned32 _ => 0 | .unsigned64 _ => 0 | .utf8 _ => 0
def Avp.sz : Avp → Nat
  | .mk _ _ _ _ _ _ v => 1 + v.sz
def szList : List Avp → Nat
  | [] => 0
  | a :: as => a.sz + 1 + szList as
end

/- nesting depth: number of grouped AVPs inside each other -/
mutual
def Value.depth : Value → Nat
  | .grouped ms => 1 + depthList ms
  | .address _ => 0 | .ipv4 _ => 0 | .ipv6 _ => 0 | .identity _ => 0 | .uri _ => 0
  | .enumerated _ => 0 | .float32 _ => 0 | .float64 _ => 0 | .integer32 _ => 0 | .integer64 _ => 0
  | .octets _ => 0 | .time _ _ => 0 | .unsigned32 _ => 0 | .unsigned64 _ => 0 | .utf8 _ => 0
def Avp.depth : Avp → Nat
  | .mk _ _ _ _ _ _ v => v.depth
def depthList : List Avp → Nat
  | [] => 0
  | a :: as => max a.depth (depthList as)
end

/- the dictionary declares, for every AVP of the tree, the type of the value it carries -/
mutual
def Value.Typed (dict : Lookup) : Value → Prop
  | .grouped ms => TypedList dict ms
  | .address _ => True | .ipv4 _ => True | .ipv6 _ => True | .identity _ => True | .uri _ => True
  | .enumerated _ => True | .float32 _ => True | .float64 _ => True | .integer32 _ => True | .integer64 _ => True
  | .octets _ => True | .time _ _ => True | .unsigned32 _ => True | .unsigned64 _ => True | .utf8 _ => True
def Avp.Typed (dict : Lookup) : Avp → Prop
  | .mk code vendor _ _ _ _ v => dict code vendor = tyOf v ∧ v.Typed dict
def TypedList (dict : Lookup) : List Avp → Prop
  | [] => True
  | a :: as => a.Typed dict ∧ TypedList dict as
end

theorem applyMask_length (x : Bytes) (m : List MK) (h : x.length = m.length) : (applyMask x m).length = m.length := by
  simp [applyMask, h]

/-- split a masked equation along an append of masks -/
theorem applyMask_split {x y1 y2 : Bytes} {m1 m2 : List MK}
    (hl : x.length = (m1 ++ m2).length) (he : applyMask x (m1 ++ m2) = y1 ++ y2) (hy : y1.length = m1.length) :
    ∃ x1 x2, x = x1 ++ x2 ∧ x1.length = m1.length ∧ x2.length = m2.length ∧
      applyMask x1 m1 = y1 ∧ applyMask x2 m2 = y2 := by
  have hl' : m1.length ≤ x.length := by simp at hl; omega
  refine ⟨x.take m1.length, x.drop m1.length, by simp, by simp; omega, by simp at hl ⊢; omega, ?_⟩
  have hx : x = x.take m1.length ++ x.drop m1.length := by simp
  rw [hx, applyMask_append _ _ _ _ (by simp; omega)] at he
  have hlen : (applyMask (x.take m1.length) m1).length = y1.length := by
    rw [applyMask_length _ _ (by simp; omega), hy]
  exact List.append_inj he hlen

/-- the three flag bits of a (possibly noisy) flags octet are those of its masked value -/
theorem flags_bits_all : ∀ (n : Fin 256) (v m p : Bool), let b : UInt8 := UInt8.ofNat n.val
    b &&& 0xE0 = ((if v then 0x80 else 0) ||| (if m then 0x40 else 0) ||| (if p then 0x20 else (0:UInt8))) →
    ((b &&& 0x80 != 0) = v ∧ (b &&& 0x40 != 0) = m ∧ (b &&& 0x20 != 0) = p) := by
  decide +kernel

theorem flags_bits (b : UInt8) (v m p : Bool)
    (h : b &&& 0xE0 = ((if v then 0x80 else 0) ||| (if m then 0x40 else 0) ||| (if p then 0x20 else (0:UInt8)))) :
    (b &&& 0x80 != 0) = v ∧ (b &&& 0x40 != 0) = m ∧ (b &&& 0x20 != 0) = p := by
  have := flags_bits_all ⟨b.toNat, b.toNat_lt⟩ v m p
  simp only [UInt8.ofNat_toNat] at this
  exact this h

end Dia
