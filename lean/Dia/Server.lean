import Dia.CodecThm
/-! The per-connection loop of the server (`process_incoming_message`) as a function of scripts. -/
namespace Dia

inductive WEv | accept (k : Nat) | pending | fail
deriving Repr

inductive HRes | ok (ans : Msg) | err
/-- `write_all` over successive `poll_write` outcomes; an exhausted script accepts everything -/
def writeAll : Bytes → List WEv → Bool × Bytes × List WEv
  | [], w => (true, [], w)
  | bs, [] => (true, bs, [])
  | bs, .pending :: w => writeAll bs w
  | _, .fail :: w => (false, [], .fail :: w)
  | b :: bs, .accept k :: w =>
    if k = 0 then (false, [], .fail :: w)                       -- `Ok(0)` is WriteZero
    else if (b :: bs).length ≤ k then (true, b :: bs, w)
    else
      let (ok, wr, w') := writeAll ((b :: bs).drop k) w
      (ok, (b :: bs).take k ++ wr, w')
termination_by bs w => (w.length, bs.length)
decreasing_by all_goals simp_wf <;> omega

structure ServeLog where
  calls : List Msg       -- requests handed to the handler, in order
  written : Bytes        -- every octet put on the stream
  clean : Bool           -- ended with Ok (peer closed) rather than Err; not compared with the code

def ServeLog.cons (req : Msg) (bs : Bytes) (l : ServeLog) : ServeLog := ⟨req :: l.calls, bs ++ l.written, l.clean⟩

/-- one entry of `hs` per handler invocation -/
def serve (cfg : Cfg) (dict : Lookup) : List HRes → List REv → List WEv → ServeLog
  | hs, evs, w =>
    let r := Codec.decode cfg dict evs
    match r.out with
    | .ok req =>
      match hs with
      | [] => ⟨[req], [], false⟩                       -- script exhausted (the harness never lets this happen)
      | .err :: _ => ⟨[req], [], false⟩                 -- `handler(req).await?`
      | .ok ans :: hs' =>
        let e := ans.enc
        match e.err with
        | some _ => ⟨[req], [], false⟩                  -- `Codec::encode` fails before anything is written
        | none =>
          let (ok, wr, w') := writeAll e.bytes w
          if ok then (serve cfg dict hs' r.rest w').cons req wr
          else ⟨[req], wr, false⟩
    | .err .eof => ⟨[], [], true⟩
    | .err _ => ⟨[], [], false⟩
    | .panic => ⟨[], [], false⟩
termination_by hs => hs.length

end Dia
