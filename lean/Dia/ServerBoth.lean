import Dia.ServerCut
/-! Read-side cut and write-side failures in one run of the server loop. -/
namespace Dia

/-- **read cut and write failures together.** `frames` arrive completely and are followed by `rest`, octets from which the
stream reader cannot extract a message (the stream ends inside the next frame, or the next frame is refused), while the write
side may stall, accept partially and fail at any point: the handler has been called with a prefix `reqs.take k` of the
requests, the answers to all but the last of them are completely on the stream, and nothing beyond the answers to
those `k` requests was written. -/
theorem serve_write_any_rest (cfg : Cfg) (dict : Lookup) :
    ∀ (frames : List Bytes) (reqs answers : List Msg) (rest : Bytes) (evs : List REv) (w : List WEv),
    frames.length = reqs.length → answers.length = reqs.length →
    (∀ i (h1 : i < frames.length) (h2 : i < reqs.length), Accepts cfg dict frames[i] reqs[i]) →
    (∀ a ∈ answers, a.enc.err = none) →
    noEmpty evs → flat evs = frames.flatten ++ rest →
    (∀ evs2, noEmpty evs2 → flat evs2 = rest → ∀ m, (Codec.decode cfg dict evs2).out ≠ .ok m) →
    ∃ k, k ≤ reqs.length ∧ (serve cfg dict (answers.map .ok) evs w).calls = reqs.take k ∧
      ((answers.take (k - 1)).map (fun a => a.enc.bytes)).flatten <+: (serve cfg dict (answers.map .ok) evs w).written ∧
      (serve cfg dict (answers.map .ok) evs w).written <+: ((answers.take k).map (fun a => a.enc.bytes)).flatten := by
  intro frames
  induction frames with
  | nil =>
    intro reqs answers rest evs w hl1 hl2 _ _ hne hflat hrest
    have hr : reqs = [] := List.eq_nil_of_length_eq_zero (by simpa using hl1.symm)
    subst hr
    have ha : answers = [] := List.eq_nil_of_length_eq_zero (by simpa using hl2)
    subst ha
    have hno := hrest evs hne (by simpa using hflat)
    refine ⟨0, Nat.le_refl _, ?_⟩
    rw [serve]
    cases ho : (Codec.decode cfg dict evs).out with
    | ok m => exact absurd ho (hno m)
    | panic => simp
    | err e => cases e <;> simp
  | cons f fs ih =>
    intro reqs answers rest evs w hl1 hl2 hacc henc hne hflat hrest
    cases reqs with
    | nil => simp at hl1
    | cons req reqs =>
      cases answers with
      | nil => simp at hl2
      | cons ans answers =>
        have ha0 : Accepts cfg dict f req := hacc 0 (Nat.zero_lt_succ _) (Nat.zero_lt_succ _)
        obtain ⟨evs1, hd, hf1, hne1⟩ := Codec.decode_frame cfg dict evs f (fs.flatten ++ rest) req hne
          (by simpa [List.append_assoc] using hflat) ha0
        have hanse : ans.enc.err = none := henc ans (List.mem_cons_self ..)
        obtain ⟨hp1, hp2⟩ := writeAll_prefix ans.enc.bytes w
        cases hx : writeAll ans.enc.bytes w with
        | mk ok rest =>
          obtain ⟨wr, w1⟩ := rest
          rw [hx] at hp1 hp2
          simp only at hp1 hp2
          rw [serve]
          simp only [hd, List.map_cons, hanse, hx]
          cases ok with
          | false =>
            refine ⟨1, by simp, ?_⟩
            simp only [Bool.false_eq_true, if_false, List.take_succ_cons, List.take_zero, Nat.sub_self, List.map_nil,
              List.flatten_nil, List.map_cons, List.flatten_cons, List.append_nil]
            exact ⟨trivial, List.nil_prefix, hp1⟩
          | true =>
            have hwr : wr = ans.enc.bytes := hp2 rfl
            subst hwr
            obtain ⟨k, hk, c1, c2, c3⟩ := ih reqs answers rest evs1 w1 (by simpa using hl1) (by simpa using hl2)
              (fun i h1 h2 => by
                have := hacc (i+1) (Nat.succ_lt_succ h1) (Nat.succ_lt_succ h2)
                simpa using this)
              (fun a ha => henc a (List.mem_cons_of_mem _ ha)) hne1 hf1 hrest
            refine ⟨k + 1, by simp; omega, ?_⟩
            simp only [if_true, ServeLog.cons, List.take_succ_cons, c1, Nat.add_sub_cancel, List.map_cons,
              List.flatten_cons]
            refine ⟨trivial, ?_, ?_⟩
            · cases k with
              | zero => simp
              | succ k =>
                simp only [List.take_succ_cons, List.map_cons, List.flatten_cons]
                have : ((answers.take k).map fun a => a.enc.bytes).flatten <+:
                    (serve cfg dict (answers.map HRes.ok) evs1 w1).written := by simpa using c2
                exact (List.prefix_append_right_inj _).mpr this
            · exact (List.prefix_append_right_inj _).mpr c3

end Dia
