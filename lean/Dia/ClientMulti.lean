import Dia.Client
/-! Model of `src/transport/client.rs` for a client object that is attached to **several connections** during its life
(`connect()` / `verif_attach_stream` called again: planned switch-over, reconnect). Import-free apart from the
single-connection model whose vocabulary it shares, so the driver links.

What the code does, and what this model therefore does: every connection of one `DiameterClient` shares the one
table `msg_caches` (waiters keyed by hop-by-hop id, and the `closed` flag); `connect()` replaces `self.writer` and
hands out a new `ClientHandler` whose reader loop works on the *same* table; `connect()` does not reset `closed`.
`send_message` and `connect` both take `&mut self`, so they never overlap; readers of different connections run
concurrently with each other and with a send.

  connect            `connect()` succeeded: a new connection `nC`; later sends write to it
  sendBegin h        as in `Dia.Cl`, refused ("Not connected") when no connection was ever attached
  write / sendReturn / sendFail
  peerEmit c it      the peer of connection `c` puts something on its wire
  readerDecode c / readerRemove c / readerDeliver c / readerStop c     the reader loop of connection `c` -/
namespace Dia.Cm
open Dia.Cl (Msg WStatus Item Reader SendPhase upd)

structure St where
  nW : Nat
  hbhOf : Nat → Nat
  status : Nat → WStatus
  cache : Nat → Option Nat
  closed : Bool
  nC : Nat
  wire : Nat → List Item
  reader : Nat → Reader
  emitted : List Msg
  send : SendPhase
  sentOn : Nat → Nat            -- the connection a waiter's request was written to
  started : List Nat            -- ids of the requests whose first octet is out

def init : St := ⟨0, fun _ => 0, fun _ => .dropped, fun _ => none, false, 0, fun _ => [], fun _ => .running, [], .idle,
  fun _ => 0, []⟩

inductive Label
  | connect
  | sendBegin (hbh : Nat)
  | write
  | sendReturn
  | sendFail
  | peerEmit (c : Nat) (it : Item)
  | readerDecode (c : Nat)
  | readerRemove (c : Nat)
  | readerDeliver (c : Nat)
  | readerStop (c : Nat)
deriving Repr

/-- `none` = label not enabled in this state -/
def step (s : St) : Label → Option St
  | .connect =>
    if s.send ≠ .idle then none else some { s with nC := s.nC + 1 }
  | .sendBegin h =>
    if s.send ≠ .idle then none else
    if s.nC = 0 then some s else
    if s.closed then some s
    else
      let w := s.nW
      let st := upd s.status w .pending
      let st := match s.cache h with
        | some old => upd st old .dropped
        | none => st
      some { s with nW := w + 1, hbhOf := upd s.hbhOf w h, status := st,
                    cache := upd s.cache h (some w), send := .registered w, sentOn := upd s.sentOn w (s.nC - 1) }
  | .write =>
    match s.send with
    | .registered w | .writing w => some { s with send := .writing w, started := s.hbhOf w :: s.started }
    | .idle => none
  | .sendReturn =>
    match s.send with
    | .writing _ => some { s with send := .idle }
    | _ => none
  | .sendFail =>
    match s.send with
    | .registered _ | .writing _ => some { s with send := .idle }
    | .idle => none
  | .peerEmit c it =>
    if s.nC ≤ c then none else
    some { s with wire := upd s.wire c (s.wire c ++ [it]),
                  emitted := match it with | .msg m => m :: s.emitted | .bad => s.emitted }
  | .readerDecode c =>
    if s.nC ≤ c then none else
    if s.reader c ≠ .running then none else
    match s.wire c with
    | [] => none
    | .msg m :: rest => some { s with wire := upd s.wire c rest, reader := upd s.reader c (.decoded m) }
    | .bad :: rest => some { s with wire := upd s.wire c rest, reader := upd s.reader c .stopping }
  | .readerRemove c =>
    match s.reader c with
    | .decoded m =>
      match s.cache m.hbh with
      | some w => some { s with cache := upd s.cache m.hbh none, reader := upd s.reader c (.removed m w) }
      | none => some { s with reader := upd s.reader c .stopping }
    | _ => none
  | .readerDeliver c =>
    match s.reader c with
    | .removed m w => some { s with status := upd s.status w (.got m), reader := upd s.reader c .running }
    | _ => none
  | .readerStop c =>
    if s.reader c ≠ .stopping then none else
    some { s with closed := true,
                  status := fun w => if s.status w = .pending ∧ s.cache (s.hbhOf w) = some w then .dropped else s.status w,
                  cache := fun _ => none, reader := upd s.reader c .stopped }

def run (s : St) : List Label → Option St
  | [] => some s
  | l :: ls => match step s l with
    | some s' => run s' ls
    | none => none

end Dia.Cm
