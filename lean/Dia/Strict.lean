import Dia.DecTyped
/-! A decoder that is lenient for no type never returns a fixed-size value under a lying length. -/
namespace Dia

theorem decLeaf_strict_len {cfg : Cfg} {ty : Ty} {n vl : Nat} {c c' : Cur} {v : Value}
    (hs : ∀ t d, cfg.lenient t d = false) (hn : fixedSize ty = some n)
    (h : decLeaf cfg ty vl c = .ok (v, c')) : vl = n := by
  unfold decLeaf at h
  rw [hn] at h
  simp only [hs] at h
  split at h
  · cases h
  · split at h
    · cases h
    · rename_i h1 h2
      simp at h1 h2
      omega

theorem leaf_nolie {v : Value} (h : tyOf v ≠ .grouped) : v.NoLie := by
  cases v <;> first | exact absurd rfl h | trivial

mutual
theorem decAvp_strict (cfg : Cfg) (dict : Lookup) (hs : ∀ t d, cfg.lenient t d = false) :
    ∀ (fuel depth : Nat) (c c' : Cur) (a : Avp), decAvp cfg dict fuel depth c = .ok (a, c') → a.NoLie
  | 0, _, _, _, _, h => by simp [decAvp] at h
  | fuel+1, depth, c, c', a, h => by
    simp only [decAvp] at h
    rw [Out.bind_eq_ok] at h
    obtain ⟨⟨hdr, c1⟩, hh, h⟩ := h
    dsimp only at h
    split at h
    · cases h
    · rename_i hshort
      rw [Out.bind_eq_ok] at h
      obtain ⟨vl, hvl, h⟩ := h
      obtain ⟨hvl1, hvl2⟩ := checkedSub_ok hvl
      rw [Out.bind_eq_ok] at h
      obtain ⟨⟨v, c2⟩, hv, h⟩ := h
      dsimp only at h
      cases h
      simp only [Avp.NoLie]
      split at hv
      · split at hv
        · cases hv
        · rw [Out.bind_eq_ok] at hv
          obtain ⟨⟨ms, c3⟩, hgr, hv⟩ := hv
          dsimp only at hv
          cases hv
          refine ⟨by intro n hn; simp [tyOf, fixedSize] at hn, ?_⟩
          simpa [Value.NoLie] using decGroup_strict cfg dict hs fuel (depth+1) vl 0 c1 _ ms hgr
      · cases hv
      · have hty := decLeaf_ty hv
        rename_i hng hnu
        refine ⟨?_, leaf_nolie (by rw [hty]; exact hng)⟩
        intro n hn
        rw [hty] at hn
        have := decLeaf_strict_len hs hn hv
        omega
theorem decGroup_strict (cfg : Cfg) (dict : Lookup) (hs : ∀ t d, cfg.lenient t d = false) :
    ∀ (fuel depth len off : Nat) (c c' : Cur) (ms : List Avp),
    decGroup cfg dict fuel depth len off c = .ok (ms, c') → NoLieList ms
  | 0, _, _, _, _, _, _, h => by simp [decGroup] at h
  | fuel+1, depth, len, off, c, c', ms, h => by
    simp only [decGroup] at h
    split at h
    · rw [Out.bind_eq_ok] at h
      obtain ⟨⟨a, c1⟩, ha, h⟩ := h
      dsimp only at h
      rw [Out.bind_eq_ok] at h
      obtain ⟨o1, ho1, h⟩ := h
      rw [Out.bind_eq_ok] at h
      obtain ⟨o2, ho2, h⟩ := h
      rw [Out.bind_eq_ok] at h
      obtain ⟨⟨as, c2⟩, hg, h⟩ := h
      dsimp only at h
      cases h
      exact ⟨decAvp_strict cfg dict hs fuel depth c c1 a ha, decGroup_strict cfg dict hs fuel depth len o2 c1 _ as hg⟩
    · split at h
      · cases h; trivial
      · cases h
end

theorem decMsg_strict (cfg : Cfg) (dict : Lookup) (hs : ∀ t d, cfg.lenient t d = false) (bs : Bytes) (m : Msg)
    (h : decMsg cfg dict bs = .ok m) : NoLieList m.avps := by
  unfold decMsg at h
  rw [Out.bind_eq_ok] at h
  obtain ⟨⟨hb, c1⟩, hr, h⟩ := h
  dsimp only at h
  split at h
  · cases h
  · split at h
    · cases h
    · rw [Out.bind_eq_ok] at h
      obtain ⟨⟨avps, c2⟩, hg, h⟩ := h
      dsimp only at h
      cases h
      exact decGroup_strict cfg dict hs _ 0 _ 20 c1 c2 avps hg

end Dia
