import Dia.Mask
import Dia.Leaf
/-! A consistent tree contains no fixed-size length lie. -/
namespace Dia

theorem fixed_len {v : Value} {n : Nat} (h : fixedSize (tyOf v) = some n) : v.len = n := by
  cases v <;> simp only [tyOf, fixedSize, Option.some.injEq, reduceCtorEq] at h <;> simp [Value.len, ← h]

mutual
theorem Value.cons_nolie : ∀ v : Value, v.Cons → v.NoLie
  | .grouped ms, hc => by
    simp only [Value.Cons] at hc
    simp only [Value.NoLie]
    exact consList_nolie ms hc
  | .address _, _ => trivial | .ipv4 _, _ => trivial | .ipv6 _, _ => trivial | .identity _, _ => trivial
  | .uri _, _ => trivial | .enumerated _, _ => trivial | .float32 _, _ => trivial | .float64 _, _ => trivial
  | .integer32 _, _ => trivial | .integer64 _, _ => trivial | .octets _, _ => trivial | .time _ _, _ => trivial
  | .unsigned32 _, _ => trivial | .unsigned64 _, _ => trivial | .utf8 _, _ => trivial
theorem Avp.cons_nolie : ∀ a : Avp, a.Cons → a.NoLie
  | .mk code vendor m p len padding v, hc => by
    obtain ⟨h1, _, h3⟩ := hc
    refine ⟨?_, Value.cons_nolie v h3⟩
    intro n hn
    rw [h1, fixed_len hn]
theorem consList_nolie : ∀ ms : List Avp, ConsList ms → NoLieList ms
  | [], _ => trivial
  | a :: as, hc => ⟨Avp.cons_nolie a hc.1, consList_nolie as hc.2⟩
end

end Dia
