import Dia.Mask
namespace Dia

/-- inversion of the AVP header decoder -/
theorem decHdr_inv {c c' : Cur} {h : Hdr} (hd : decHdr c = .ok (h, c')) :
    (c'.isIn ↔ c.isIn) ∧ h.len < 16777216 ∧
    (∀ r', c' = .inRange r' → ∃ hb, c = .inRange (hb ++ r') ∧ hb.length = hdrLen h.vendor ∧
      hb.length = (maskHdr h.vendor).length ∧
      applyMask hb (maskHdr h.vendor) = hdrBytes h.code h.vendor h.m h.p h.len) := by
  unfold decHdr at hd
  rw [Out.bind_eq_ok] at hd
  obtain ⟨⟨b8, c1⟩, hr, hd⟩ := hd
  dsimp only at hd
  obtain ⟨hl8, hin1, hrest1⟩ := Cur.read_spec hr
  obtain ⟨b0,b1,b2,b3,b4,b5,b6,b7,rfl⟩ := list_len8 hl8
  simp only [List.take, List.drop, List.getD_cons_succ, List.getD_cons_zero] at hd
  split at hd
  · rename_i hv
    rw [Out.bind_eq_ok] at hd
    obtain ⟨⟨b4', c2⟩, hr2, hd⟩ := hd
    dsimp only at hd
    obtain ⟨hl4, hin2, hrest2⟩ := Cur.read_spec hr2
    obtain ⟨v0,v1,v2,v3,rfl⟩ := list_len4 hl4
    cases hd
    refine ⟨hin2.trans hin1, fromBe3_lt _ _ _, ?_⟩
    intro r' hr'
    obtain ⟨r1, hc1, hr1⟩ := hrest2 r' hr'
    obtain ⟨r0, hc0, hr0⟩ := hrest1 r1 hc1
    refine ⟨[b0,b1,b2,b3,b4,b5,b6,b7,v0,v1,v2,v3], by rw [hc0, hr0, hr1]; simp, by simp [hdrLen], by simp [maskHdr], ?_⟩
    simp only [maskHdr, Option.isSome_some, if_true, applyMask, List.cons_append, List.nil_append, List.zipWith_cons_cons, List.zipWith_nil_right, applyMK, hdrBytes]
    rw [UInt32.toNat_ofNat_of_lt' (fromBe4_lt _ _ _ _), UInt32.toNat_ofNat_of_lt' (fromBe4_lt _ _ _ _), be32_fromBe, be32_fromBe, be24_fromBe]
    simp only [List.cons_append, List.nil_append, flagsByte, Option.isSome_some, if_true]
    have := flags_u8 b4
    simp only [hv, if_true] at this
    simp [this]
  · rename_i hv
    cases hd
    refine ⟨hin1, fromBe3_lt _ _ _, ?_⟩
    intro r' hr'
    obtain ⟨r0, hc0, hr0⟩ := hrest1 r' hr'
    refine ⟨[b0,b1,b2,b3,b4,b5,b6,b7], by rw [hc0, hr0], by simp [hdrLen], by simp [maskHdr], ?_⟩
    simp only [maskHdr, Option.isSome_none, applyMask, List.cons_append, List.nil_append, List.zipWith_cons_cons, applyMK, hdrBytes]
    rw [UInt32.toNat_ofNat_of_lt' (fromBe4_lt _ _ _ _), be32_fromBe, be24_fromBe]
    simp only [List.cons_append, List.nil_append, flagsByte, Option.isSome_none]
    have := flags_u8 b4
    simp only [hv] at this
    simp [this]

end Dia
