import Dia.ClientMultiThm
/-! delivery for a client with several connections: in a run where ids are fresh, every peer answers only started
requests, each at most once (on whichever connection it likes), and sends nothing else, every answer the readers have
finished processing sits in the future of its own request. -/
namespace Dia.Cm
open Dia.Cl (Msg WStatus Item Reader SendPhase upd)

structure Hist where
  usedIds : List Nat := []
  answered : List Nat := []

def Hist.step (hs : Hist) : Label → Hist
  | .sendBegin h => { hs with usedIds := h :: hs.usedIds }
  | .peerEmit _ (.msg m) => { hs with answered := m.hbh :: hs.answered }
  | _ => hs

/-- what the quantifier of C11 assumes of a step, for several connections: fresh ids; a peer - on any connection - answers a
request only once its first octet is out, at most once over all connections, and sends nothing else -/
def polite (s : St) (hs : Hist) : Label → Prop
  | .sendBegin h => h ∉ hs.usedIds ∧ 0 < s.nC
  | .peerEmit _ (.msg m) => m.hbh ∈ s.started ∧ m.hbh ∉ hs.answered
  | .peerEmit _ .bad => False
  | _ => True

def runP (s : St) (hs : Hist) : List Label → Option (St × Hist)
  | [] => some (s, hs)
  | l :: ls => match step s l with
    | some s' => runP s' (hs.step l) ls
    | none => none

def politeRun (s : St) (hs : Hist) : List Label → Prop
  | [] => True
  | l :: ls => polite s hs l ∧ match step s l with
    | some s' => politeRun s' (hs.step l) ls
    | none => True

structure Inv2 (s : St) (hs : Hist) : Prop where
  base : Inv s
  k_started : ∀ h, h ∈ s.started → h ∈ hs.usedIds
  k_ids : ∀ w, w < s.nW → s.hbhOf w ∈ hs.usedIds
  k_uniq : ∀ w w', w < s.nW → w' < s.nW → s.hbhOf w = s.hbhOf w' → w = w'
  k_emit_ans : ∀ m, m ∈ s.emitted → m.hbh ∈ hs.answered
  k_emit_uniq : ∀ m m', m ∈ s.emitted → m' ∈ s.emitted → m.hbh = m'.hbh → m = m'
  k_ans_started : ∀ h, h ∈ hs.answered → h ∈ s.started
  k_cached : ∀ h, h ∈ s.started → h ∉ hs.answered → ∃ w, s.cache h = some w
  k_send : ∀ w, (s.send = .registered w ∨ s.send = .writing w) →
      w < s.nW ∧ (s.cache (s.hbhOf w) = some w ∨ s.hbhOf w ∈ hs.answered)
  k_reg : ∀ w, s.send = .registered w → s.hbhOf w ∉ s.started
  k_pend : ∀ c m, (Item.msg m ∈ s.wire c ∨ s.reader c = .decoded m) → ∃ w, s.cache m.hbh = some w
  k_alive : (∀ c, s.reader c ≠ .stopping ∧ s.reader c ≠ .stopped) ∧ s.closed = false
  k_nobad : ∀ c, Item.bad ∉ s.wire c
  k_nodup : ∀ c, (s.wire c).Nodup
  k_lin : ∀ c c' m, Item.msg m ∈ s.wire c → s.reader c' ≠ .decoded m
  k_one_wire : ∀ c c' m, Item.msg m ∈ s.wire c → Item.msg m ∈ s.wire c' → c = c'
  k_one_dec : ∀ c c' m, s.reader c = .decoded m → s.reader c' = .decoded m → c = c'
  k_where : ∀ m, m ∈ s.emitted →
      (∃ c, Item.msg m ∈ s.wire c) ∨ (∃ c, s.reader c = .decoded m) ∨ (∃ c w, s.reader c = .removed m w) ∨
      ∃ w, w < s.nW ∧ s.hbhOf w = m.hbh ∧ s.status w = .got m

theorem inv2_init : Inv2 init {} := by
  refine ⟨inv_init, ?_, ?_, ?_, ?_, ?_, ?_, ?_, ?_, ?_, ?_, ?_, ?_, ?_, ?_, ?_, ?_, ?_⟩ <;> simp [init]

theorem inv2_connect {s s' : St} {hs : Hist} (hi : Inv2 s hs) (hp : polite s hs (.connect))
    (h : step s (.connect) = some s') : Inv2 s' (hs.step (.connect)) := by
  have hb := inv_step (.connect) hi.base h
  obtain ⟨⟨c1, c2, c3, c4, c4u, c5, c6, c7, c8⟩, k1, k2, k3, k4, k5, k6, k7, k8, k9, k10, k11, k13, k14, k15, k16, k17, k12⟩ := hi
  simp only [step] at h
  simp only [polite] at hp
  simp only [Hist.step]
  split at h
  · cases h
  · cases h; refine ⟨hb, ?_, ?_, ?_, ?_, ?_, ?_, ?_, ?_, ?_, ?_, ?_, ?_, ?_, ?_, ?_, ?_, ?_⟩ <;> grind

theorem inv2_sendBegin {s s' : St} {hs : Hist} (h0 : Nat) (hi : Inv2 s hs) (hp : polite s hs (.sendBegin h0))
    (h : step s (.sendBegin h0) = some s') : Inv2 s' (hs.step (.sendBegin h0)) := by
  have hb := inv_step (.sendBegin h0) hi.base h
  obtain ⟨⟨c1, c2, c3, c4, c4u, c5, c6, c7, c8⟩, k1, k2, k3, k4, k5, k6, k7, k8, k9, k10, k11, k13, k14, k15, k16, k17, k12⟩ := hi
  simp only [step] at h
  simp only [polite] at hp
  simp only [Hist.step]
  split at h
  · cases h
  · split at h
    · rename_i hz; exact absurd hz (by omega)
    · split at h
      · rename_i hcl; exact absurd hcl (by simp [k11.2])
      · cases h
        cases hc : s.cache h0 <;> rw [hc] at hb <;> refine ⟨hb, ?_, ?_, ?_, ?_, ?_, ?_, ?_, ?_, ?_, ?_, ?_, ?_, ?_, ?_, ?_, ?_, ?_⟩ <;>
          (try simp only [upd]) <;> grind

theorem inv2_write {s s' : St} {hs : Hist} (hi : Inv2 s hs) (hp : polite s hs (.write))
    (h : step s (.write) = some s') : Inv2 s' (hs.step (.write)) := by
  have hb := inv_step (.write) hi.base h
  obtain ⟨⟨c1, c2, c3, c4, c4u, c5, c6, c7, c8⟩, k1, k2, k3, k4, k5, k6, k7, k8, k9, k10, k11, k13, k14, k15, k16, k17, k12⟩ := hi
  simp only [step] at h
  simp only [polite] at hp
  simp only [Hist.step]
  split at h <;> first
    | (cases h; refine ⟨hb, ?_, ?_, ?_, ?_, ?_, ?_, ?_, ?_, ?_, ?_, ?_, ?_, ?_, ?_, ?_, ?_, ?_⟩ <;> grind)
    | cases h

theorem inv2_sendReturn {s s' : St} {hs : Hist} (hi : Inv2 s hs) (hp : polite s hs (.sendReturn))
    (h : step s (.sendReturn) = some s') : Inv2 s' (hs.step (.sendReturn)) := by
  have hb := inv_step (.sendReturn) hi.base h
  obtain ⟨⟨c1, c2, c3, c4, c4u, c5, c6, c7, c8⟩, k1, k2, k3, k4, k5, k6, k7, k8, k9, k10, k11, k13, k14, k15, k16, k17, k12⟩ := hi
  simp only [step] at h
  simp only [polite] at hp
  simp only [Hist.step]
  split at h <;> first
    | (cases h; refine ⟨hb, ?_, ?_, ?_, ?_, ?_, ?_, ?_, ?_, ?_, ?_, ?_, ?_, ?_, ?_, ?_, ?_, ?_⟩ <;> grind)
    | cases h

theorem inv2_sendFail {s s' : St} {hs : Hist} (hi : Inv2 s hs) (hp : polite s hs (.sendFail))
    (h : step s (.sendFail) = some s') : Inv2 s' (hs.step (.sendFail)) := by
  have hb := inv_step (.sendFail) hi.base h
  obtain ⟨⟨c1, c2, c3, c4, c4u, c5, c6, c7, c8⟩, k1, k2, k3, k4, k5, k6, k7, k8, k9, k10, k11, k13, k14, k15, k16, k17, k12⟩ := hi
  simp only [step] at h
  simp only [polite] at hp
  simp only [Hist.step]
  split at h <;> first
    | (cases h; refine ⟨hb, ?_, ?_, ?_, ?_, ?_, ?_, ?_, ?_, ?_, ?_, ?_, ?_, ?_, ?_, ?_, ?_, ?_⟩ <;> grind)
    | cases h

theorem inv2_peerEmit {s s' : St} {hs : Hist} (c : Nat) (it : Item) (hi : Inv2 s hs) (hp : polite s hs (.peerEmit c it))
    (h : step s (.peerEmit c it) = some s') : Inv2 s' (hs.step (.peerEmit c it)) := by
  have hb := inv_step (.peerEmit c it) hi.base h
  obtain ⟨⟨c1, c2, c3, c4, c4u, c5, c6, c7, c8⟩, k1, k2, k3, k4, k5, k6, k7, k8, k9, k10, k11, k13, k14, k15, k16, k17, k12⟩ := hi
  simp only [step] at h
  simp only [polite] at hp
  simp only [Hist.step]
  split at h
  · cases h
  · cases it with
    | bad => exact absurd hp (by simp)
    | msg m =>
      cases h
      refine ⟨hb, ?_, ?_, ?_, ?_, ?_, ?_, ?_, ?_, ?_, ?_, ?_, ?_, ?_, ?_, ?_, ?_, ?_⟩ <;> (try simp only [upd]) <;> grind

theorem inv2_readerDecode {s s' : St} {hs : Hist} (c : Nat) (hi : Inv2 s hs) (hp : polite s hs (.readerDecode c))
    (h : step s (.readerDecode c) = some s') : Inv2 s' (hs.step (.readerDecode c)) := by
  have hb := inv_step (.readerDecode c) hi.base h
  obtain ⟨⟨c1, c2, c3, c4, c4u, c5, c6, c7, c8⟩, k1, k2, k3, k4, k5, k6, k7, k8, k9, k10, k11, k13, k14, k15, k16, k17, k12⟩ := hi
  simp only [step] at h
  simp only [polite] at hp
  simp only [Hist.step]
  split at h
  · cases h
  · split at h
    · cases h
    · split at h
      · cases h
      · cases h; refine ⟨hb, ?_, ?_, ?_, ?_, ?_, ?_, ?_, ?_, ?_, ?_, ?_, ?_, ?_, ?_, ?_, ?_, ?_⟩ <;> (try simp only [upd]) <;> grind
      · cases h; refine ⟨hb, ?_, ?_, ?_, ?_, ?_, ?_, ?_, ?_, ?_, ?_, ?_, ?_, ?_, ?_, ?_, ?_, ?_⟩ <;> (try simp only [upd]) <;> grind

theorem inv2_readerRemove {s s' : St} {hs : Hist} (c : Nat) (hi : Inv2 s hs) (hp : polite s hs (.readerRemove c))
    (h : step s (.readerRemove c) = some s') : Inv2 s' (hs.step (.readerRemove c)) := by
  have hb := inv_step (.readerRemove c) hi.base h
  obtain ⟨⟨c1, c2, c3, c4, c4u, c5, c6, c7, c8⟩, k1, k2, k3, k4, k5, k6, k7, k8, k9, k10, k11, k13, k14, k15, k16, k17, k12⟩ := hi
  simp only [step] at h
  simp only [polite] at hp
  simp only [Hist.step]
  split at h
  · rename_i m hr
    split at h
    · cases h; refine ⟨hb, ?_, ?_, ?_, ?_, ?_, ?_, ?_, ?_, ?_, ?_, ?_, ?_, ?_, ?_, ?_, ?_, ?_⟩ <;> (try simp only [upd]) <;> grind
    · rename_i hnone
      obtain ⟨w, hw⟩ := k10 c m (Or.inr hr)
      rw [hw] at hnone; cases hnone
  · cases h

theorem inv2_readerDeliver {s s' : St} {hs : Hist} (c : Nat) (hi : Inv2 s hs) (hp : polite s hs (.readerDeliver c))
    (h : step s (.readerDeliver c) = some s') : Inv2 s' (hs.step (.readerDeliver c)) := by
  have hb := inv_step (.readerDeliver c) hi.base h
  obtain ⟨⟨c1, c2, c3, c4, c4u, c5, c6, c7, c8⟩, k1, k2, k3, k4, k5, k6, k7, k8, k9, k10, k11, k13, k14, k15, k16, k17, k12⟩ := hi
  simp only [step] at h
  simp only [polite] at hp
  simp only [Hist.step]
  split at h
  · cases h; refine ⟨hb, ?_, ?_, ?_, ?_, ?_, ?_, ?_, ?_, ?_, ?_, ?_, ?_, ?_, ?_, ?_, ?_, ?_⟩ <;> (try simp only [upd]) <;> grind
  · cases h

theorem inv2_readerStop {s s' : St} {hs : Hist} (c : Nat) (hi : Inv2 s hs) (hp : polite s hs (.readerStop c))
    (h : step s (.readerStop c) = some s') : Inv2 s' (hs.step (.readerStop c)) := by
  have hb := inv_step (.readerStop c) hi.base h
  obtain ⟨⟨c1, c2, c3, c4, c4u, c5, c6, c7, c8⟩, k1, k2, k3, k4, k5, k6, k7, k8, k9, k10, k11, k13, k14, k15, k16, k17, k12⟩ := hi
  simp only [step] at h
  simp only [polite] at hp
  simp only [Hist.step]
  split at h
  · cases h
  · rename_i hr; exact absurd (by simpa using hr) (k11.1 c).1

theorem inv2_step {s s' : St} {hs : Hist} (l : Label) (hi : Inv2 s hs) (hp : polite s hs l)
    (h : step s l = some s') : Inv2 s' (hs.step l) := by
  cases l with
  | connect => exact inv2_connect hi hp h
  | sendBegin h0 => exact inv2_sendBegin h0 hi hp h
  | write => exact inv2_write hi hp h
  | sendReturn => exact inv2_sendReturn hi hp h
  | sendFail => exact inv2_sendFail hi hp h
  | peerEmit c it => exact inv2_peerEmit c it hi hp h
  | readerDecode c => exact inv2_readerDecode c hi hp h
  | readerRemove c => exact inv2_readerRemove c hi hp h
  | readerDeliver c => exact inv2_readerDeliver c hi hp h
  | readerStop c => exact inv2_readerStop c hi hp h

theorem inv2_run {s s' : St} {hs hs' : Hist} (ls : List Label) (hi : Inv2 s hs) (hp : politeRun s hs ls)
    (h : runP s hs ls = some (s', hs')) : Inv2 s' hs' := by
  induction ls generalizing s hs with
  | nil => simp [runP] at h; obtain ⟨rfl, rfl⟩ := h; exact hi
  | cons l ls ih =>
    simp only [runP] at h
    simp only [politeRun] at hp
    split at h
    · rename_i s1 hs1
      rw [hs1] at hp
      exact ih (inv2_step l hi hp.1 hs1) hp.2 h
    · cases h

end Dia.Cm
