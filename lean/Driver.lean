import Dia.GlueThm
import Dia.Dump
import Dia.Exec
import Dia.Server
import Dia.StreamSeq
import Dia.StreamAll
import Dia.Fixed
import Dia.ClientPolite
import Dia.ClientMulti
import Dia.ClientMultiPolite
import Dia.Tls
import Dia.Accept
/-! Line-protocol interpreter (DESIGN.md Appendix A): one operation per input line, one answer line
`<impl> | <spec> | <reason>` per operation. Imports model files only (no Mathlib), so it links as an executable. -/
open Dia

structure DState where
  ms : MState := {}
  cfg : Cfg := ⟨fun _ _ => false, 32, {}⟩
  app : Option DocApp := none       -- application element being read
  doc : List DocApp := []           -- document being read (reversed)
  stash : List Doc := []            -- documents waiting for `dconstruct` (reversed)
  saved : Array Msg := #[]          -- messages set aside by `msave` (answers the scripted handler returns)
  frozen : Option Dict := none      -- a copy of the dictionary kept by `freeze` while the current one goes on changing

def Dia.Ty.idx : Ty → Nat
  | .address => 0 | .ipv4 => 1 | .ipv6 => 2 | .identity => 3 | .uri => 4 | .enumerated => 5 | .float32 => 6
  | .float64 => 7 | .grouped => 8 | .integer32 => 9 | .integer64 => 10 | .octets => 11 | .time => 12
  | .unsigned32 => 13 | .unsigned64 => 14 | .utf8 => 15 | .unknown => 16

def pU32 (s : String) : Option UInt32 := s.toNat?.bind fun n => if n < 4294967296 then some n.toUInt32 else none
def pU8 (s : String) : Option UInt8 := s.toNat?.bind fun n => if n < 256 then some n.toUInt8 else none
def pVendor (s : String) : Option (Option UInt32) := if s = "-" then some none else (pU32 s).map some
def pStr (s : String) : Option String := (unhex? s).bind fun b => String.fromUTF8? (ByteArray.mk b.toArray)
def pI32 (s : String) : Option UInt32 :=
  s.toInt?.bind fun i => if -2147483648 ≤ i ∧ i < 2147483648 then some (i % 4294967296).toNat.toUInt32 else none
def pI64 (s : String) : Option UInt64 :=
  s.toInt?.bind fun i =>
    if -9223372036854775808 ≤ i ∧ i < 9223372036854775808 then some (i % 18446744073709551616).toNat.toUInt64 else none
def pU64 (s : String) : Option UInt64 :=
  s.toNat?.bind fun n => if n < 18446744073709551616 then some n.toUInt64 else none
def pBytesN (n : Nat) (s : String) : Option Bytes := (unhex? s).bind fun b => if b.length = n then some b else none
def pUtf8 (s : String) : Option Bytes := (unhex? s).bind fun b => if utf8Valid b then some b else none

def parseValue : List String → Option Value
  | ["u32", n] => (pU32 n).map .unsigned32
  | ["i32", n] => (pI32 n).map .integer32
  | ["enum", n] => (pI32 n).map .enumerated
  | ["u64", n] => (pU64 n).map .unsigned64
  | ["i64", n] => (pI64 n).map .integer64
  | ["f32", h] => (pBytesN 4 h).map fun b => .float32 (fromBe b).toUInt32
  | ["f64", h] => (pBytesN 8 h).map fun b => .float64 (fromBe b).toUInt64
  | ["time", s, n] => s.toInt?.bind fun s => n.toNat?.map fun n => .time s n
  | ["ipv4", h] => (pBytesN 4 h).map .ipv4
  | ["ipv6", h] => (pBytesN 16 h).map .ipv6
  | ["addr4", h] => (pBytesN 4 h).map fun b => .address (.v4 b)
  | ["addr6", h] => (pBytesN 16 h).map fun b => .address (.v6 b)
  | ["e164", h] => (pUtf8 h).map fun b => .address (.e164 b)
  | ["utf8", h] => (pUtf8 h).map .utf8
  | ["ident", h] => (pUtf8 h).map .identity
  | ["oct", h] => (unhex? h).map .octets
  | ["octn", n, b] => n.toNat?.bind fun n => (pBytesN 1 b).map fun b => .octets (List.replicate n (b.getD 0 0))
  | ["uri", h] => (unhex? h).map .uri
  | _ => none

def tyOfApiName (s : String) : Option Ty :=
  if s = "Unknown" then some .unknown else
  let t := tyOfName s
  if t = .unknown then none else some t

def parseOp : List String → Option Op
  | ["new", c, a, f, h, e] => do
    let c ← c.toNat?; let a ← a.toNat?; let f ← pU8 f; let h ← pU32 h; let e ← pU32 e
    pure (.new c a f h e)
  | "val" :: rest => (parseValue rest).map .val
  | ["grp_new"] => some .grpNew
  | ["grp_add_avp", c, v, f] => do let c ← pU32 c; let v ← pVendor v; let f ← pU8 f; pure (.grpAddAvp c v f)
  | ["grp_add"] => some .grpAdd
  | ["avp_new", c, v, f] => do let c ← pU32 c; let v ← pVendor v; let f ← pU8 f; pure (.avpNew c v f)
  | ["avp_name", n] => (pStr n).map .avpName
  | ["add"] => some .add
  | ["add_avp", c, v, f] => do let c ← pU32 c; let v ← pVendor v; let f ← pU8 f; pure (.addAvp c v f)
  | ["add_by_name", n] => (pStr n).map .addByName
  | ["decode", h] => (unhex? h).map .decode
  | ["grp_from_avp", i] => i.toNat?.map .grpFromAvp
  | ["avp_from_msg", i] => i.toNat?.map .avpFromMsg
  | ["reencode"] => some .reencode
  | _ => none

def fxTy (s : String) : Option Ty :=
  match s with
  | "u32" => some .unsigned32 | "i32" => some .integer32 | "enum" => some .enumerated | "f32" => some .float32
  | "time" => some .time | "ipv4" => some .ipv4 | "u64" => some .unsigned64 | "i64" => some .integer64
  | "f64" => some .float64 | "ipv6" => some .ipv6
  | _ => none

/-- `d:<hex>` data chunk, `p` pending, `e` end of stream, `f` i/o error -/
def parseREvs (s : String) : Option (List REv) :=
  if s = "-" then some [] else
  (s.splitOn ",").mapM fun t =>
    -- `i`: the call fails with `Interrupted` - for `read_exact` a failure like any other (the reading stops there)
    if t = "p" then some .pending else if t = "e" then some .eof else if t = "f" || t = "i" then some .fail
    else if t.startsWith "t:" then some .pending      -- a pause in (virtual) time: nothing arrives
    else if t.startsWith "d:" then (unhex? (t.drop 2).toString).map .data else none

/-- `a<k>` accept at most k octets, `p` pending, `f` fail -/
def parseWEvs (s : String) : Option (List WEv) :=
  if s = "-" then some [] else
  -- `i`: the call fails with `Interrupted` - for `write_all` a failure like any other (nothing writes afterwards)
  -- `F<n>`: everything is taken until n octets are on the stream in total, the next call fails: for this model, whose
  -- `write_all` offers all that is left at every call, that is "accept what is missing to n, then fail"
  (s.splitOn ",").foldl (fun (acc : Option (List WEv × Nat)) t =>
    match acc with
    | none => none
    | some (evs, total) =>
      if t = "p" then some (evs ++ [.pending], total)
      else if t = "f" || t = "i" then some (evs ++ [.fail], total)
      else if t.startsWith "a" then
        (t.drop 1).toString.toNat?.map fun k => (evs ++ [.accept k], total + k)
      else if t.startsWith "F" then
        (t.drop 1).toString.toNat?.map fun n =>
          if n > total then (evs ++ [.accept (n - total), .fail], n) else (evs ++ [.fail], total)
      else none) (some ([], 0)) |>.map (·.1)

def sdecLine (cfg : Cfg) (dict : Lookup) (n : Nat) (evs : List REv) : String :=
  String.intercalate ";" ((decodeSeqAll cfg dict n evs).map fun (o, used) =>
    match o with
    | .ok m => "ok:" ++ m.dump ++ "@" ++ toString used
    | .err _ => "err@" ++ toString used
    | .panic => "panic@" ++ toString used)

def bit (b : Bool) : String := if b then "1" else "0"

/-! ### replay of an observed client trace through the transition system (C11, C12) -/

structure RState where
  s : Cl.St := Cl.init
  hist : Cl.Hist := {}
  polite : Bool := true
  answers : List (Nat × Nat) := []      -- the peer's messages still to come, in stream order: (hop-by-hop, uid)
  labels : Nat := 0

def politeB (s : Cl.St) (hs : Cl.Hist) : Cl.Label → Bool
  | .sendBegin h => !hs.usedIds.contains h
  | .peerEmit (.msg m) => s.started.contains m.hbh && !hs.answered.contains m.hbh
  | .peerEmit .bad => false
  | _ => true

def RState.apply (r : RState) (l : Cl.Label) (what : String) : Except String RState :=
  match Cl.step r.s l with
  | some s' =>
    -- the stop of the reader is replayed as a `bad` item; it does not count against the politeness of what came before
    let p := match l with | .peerEmit .bad => true | _ => politeB r.s r.hist l
    .ok { r with s := s', hist := r.hist.step l, polite := r.polite && p, labels := r.labels + 1 }
  | none => .error ("step not enabled in the model: " ++ what)

def readerTag : Cl.Reader → String
  | .running => "running" | .decoded _ => "decoded" | .removed _ _ => "removed" | .stopping => "stopping"
  | .stopped => "stopped"

def replayEvent (r : RState) (ev : String) : Except String RState :=
  match ev.splitOn ":" with
  | ["sb", _] => .ok r
  | ["rd", _] => .ok r
  | ["reg", h] =>
    match h.toNat? with
    | some h =>
      if r.s.closed then .error "registered a waiter although the connection is closed" else r.apply (.sendBegin h) ev
    | none => .error "bad event"
  | ["refused", h] =>
    match h.toNat? with
    | some h => if r.s.closed then r.apply (.sendBegin h) ev else .error "send refused although the connection is open"
    | none => .error "bad event"
  | ["wr", _] => r.apply .write ev
  | ["ret", _, "ok"] => r.apply .sendReturn ev
  | ["ret", _, "err"] => if r.s.send = .idle then .ok r else r.apply .sendFail ev
  | ["rm", h, found] =>
    match h.toNat?, r.answers with
    | some h, (ah, uid) :: rest =>
      if ah ≠ h then .error ("the reader decoded id " ++ toString h ++ " but the peer's next message has id " ++ toString ah) else
      let cached := (r.s.cache h).isSome
      if cached ≠ (found == "1") then .error ("table lookup for id " ++ toString h ++ " found=" ++ found ++
        " but the model's table says " ++ toString cached) else
      match ({ r with answers := rest }).apply (.peerEmit (.msg ⟨h, uid⟩)) ev with
      | .error e => .error e
      | .ok r1 =>
        match r1.apply .readerDecode ev with
        | .error e => .error e
        | .ok r2 => r2.apply .readerRemove ev
    | _, _ => .error "the reader decoded a message the peer did not send"
  | ["dl", _, "1"] => r.apply .readerDeliver ev
  | ["dl", _, "0"] => .error "delivery to a future that was already dropped (outside the model's quantifier)"
  | ["stop"] =>
    match r.s.reader with
    | .stopping => r.apply .readerStop ev
    | .running =>
      match r.apply (.peerEmit .bad) ev with
      | .error e => .error e
      | .ok r1 =>
        match r1.apply .readerDecode ev with
        | .error e => .error e
        | .ok r2 => r2.apply .readerStop ev
    | st => .error ("reader stopped while the model's reader is " ++ readerTag st)
  | _ => .error ("unknown event " ++ ev)

def replayAll : List String → Nat → RState → Except (Nat × String) RState
  | [], _, r => .ok r
  | ev :: rest, k, r =>
    match replayEvent r ev with
    | .ok r' => replayAll rest (k+1) r'
    | .error e => .error (k, e)

def statusOf (s : Cl.St) (w : Nat) : String :=
  match s.status w with
  | .pending => "pending"
  | .got m => "got:" ++ toString m.hbh ++ ":" ++ toString m.uid
  | .dropped => "err"

def ctraceLine (evs answers : String) : String :=
  let ans : List (Nat × Nat) :=
    if answers = "-" then [] else
    (answers.splitOn ",").filterMap fun t =>
      match t.splitOn ":" with
      | [h, u] => match h.toNat?, u.toNat? with | some h, some u => some (h, u) | _, _ => none
      | _ => none
  let events := if evs = "-" then [] else evs.splitOn ","
  match replayAll events 0 { answers := ans } with
  | .error (k, e) => "reject@" ++ toString k ++ " " ++ e
  | .ok r =>
    let res := (List.range r.s.nW).map (statusOf r.s)
    "accept " ++ (if res.isEmpty then "-" else String.intercalate "," res) ++ " | labels=" ++ toString r.labels ++
      " polite=" ++ bit r.polite ++ " reader=" ++ readerTag r.s.reader ++ " closed=" ++ bit r.s.closed ++
      " wire=" ++ toString r.s.wire.length ++ " | -"

/-! ### the same for a client object with several connections (`Dia.Cm`) -/

structure MCState where
  s : Cm.St := Cm.init
  answers : List (List (Nat × Nat)) := []   -- per connection: the peer's messages still to come, in stream order
  labels : Nat := 0
  hist : Cm.Hist := {}
  polite : Bool := true                      -- is the run so far one `C11_multi_delivery` speaks about?

def politeMB (s : Cm.St) (hs : Cm.Hist) : Cm.Label → Bool
  | .sendBegin h => !hs.usedIds.contains h && decide (0 < s.nC)
  | .peerEmit _ (.msg m) => s.started.contains m.hbh && !hs.answered.contains m.hbh
  | .peerEmit _ .bad => false
  | _ => true

def MCState.apply (r : MCState) (l : Cm.Label) (what : String) : Except String MCState :=
  match Cm.step r.s l with
  | some s' =>
    -- (the stop of a reader is replayed as a `bad` item; it does not count against the politeness of what came before)
    let p := match l with | .peerEmit _ .bad => true | _ => politeMB r.s r.hist l
    .ok { r with s := s', labels := r.labels + 1, hist := r.hist.step l, polite := r.polite && p }
  | none => .error ("step not enabled in the model: " ++ what)

def MCState.applyAll (r : MCState) (ls : List Cm.Label) (what : String) : Except String MCState :=
  ls.foldl (fun acc l => match acc with | .ok r => r.apply l what | .error e => .error e) (.ok r)

/-- `name@c` -> (name, c) -/
def splitAt? (t : String) : Option (String × Nat) :=
  match t.splitOn "@" with
  | [a, c] => c.toNat?.map fun c => (a, c)
  | _ => none

def replayEventM (r : MCState) (ev : String) : Except String MCState :=
  match ev.splitOn ":" with
  | ["sb", _] => .ok r
  | ["conn"] => r.apply .connect ev
  | ["reg", h] =>
    match h.toNat? with
    | some h =>
      if r.s.nC = 0 then .error "registered a waiter although no connection was ever attached" else
      if r.s.closed then .error "registered a waiter although the table is closed" else r.apply (.sendBegin h) ev
    | none => .error "bad event"
  | ["refused", h] =>
    match h.toNat? with
    | some h => if r.s.closed then r.apply (.sendBegin h) ev else .error "send refused although the table is open"
    | none => .error "bad event"
  | ["ret", _, "ok"] => r.apply .sendReturn ev
  | ["ret", _, "err"] => if r.s.send = .idle then .ok r else r.apply .sendFail ev
  | [t, x] =>
    match splitAt? t with
    | some ("wr", c) =>
      if c + 1 ≠ r.s.nC then .error ("request octets went to connection " ++ toString c ++ " although the latest is " ++ toString (r.s.nC - 1))
      else r.apply .write ev
    | some ("rd", _) => let _ := x; .ok r
    | _ => .error ("unknown event " ++ ev)
  | [t, h, flag] =>
    match splitAt? t, h.toNat? with
    | some ("rm", c), some h =>
      match r.answers[c]? with
      | some ((ah, uid) :: rest) =>
        if ah ≠ h then .error ("reader " ++ toString c ++ " decoded id " ++ toString h ++ " but its peer's next message has id " ++ toString ah) else
        let cached := (r.s.cache h).isSome
        if cached ≠ (flag == "1") then .error ("table lookup for id " ++ toString h ++ " found=" ++ flag ++
          " but the model's table says " ++ toString cached) else
        ({ r with answers := r.answers.set c rest }).applyAll
          [.peerEmit c (.msg ⟨h, uid⟩), .readerDecode c, .readerRemove c] ev
      | _ => .error ("reader " ++ toString c ++ " decoded a message its peer did not send")
    | some ("dl", c), some _ =>
      if flag == "1" then r.apply (.readerDeliver c) ev
      else .error "delivery to a future that was already dropped (outside the model's quantifier)"
    | _, _ => .error ("unknown event " ++ ev)
  | [t] =>
    match splitAt? t with
    | some ("stop", c) =>
      match r.s.reader c with
      | .stopping => r.apply (.readerStop c) ev
      | .running => r.applyAll [.peerEmit c .bad, .readerDecode c, .readerStop c] ev
      | st => .error ("reader " ++ toString c ++ " stopped while the model's reader is " ++ readerTag st)
    | _ => .error ("unknown event " ++ ev)
  | _ => .error ("unknown event " ++ ev)

def replayAllM : List String → Nat → MCState → Except (Nat × String) MCState
  | [], _, r => .ok r
  | ev :: rest, k, r =>
    match replayEventM r ev with
    | .ok r' => replayAllM rest (k+1) r'
    | .error e => .error (k, e)

def statusOfM (s : Cm.St) (w : Nat) : String :=
  match s.status w with
  | .pending => "pending"
  | .got m => "got:" ++ toString m.hbh ++ ":" ++ toString m.uid
  | .dropped => "err"

def ctracemLine (evs answers : String) : String :=
  let per : List (List (Nat × Nat)) :=
    if answers = "-" then [] else
    (answers.splitOn ";").map fun part =>
      if part = "" || part = "-" then [] else
      (part.splitOn ",").filterMap fun t =>
        match t.splitOn ":" with
        | [h, u] => match h.toNat?, u.toNat? with | some h, some u => some (h, u) | _, _ => none
        | _ => none
  let events := if evs = "-" then [] else evs.splitOn ","
  match replayAllM events 0 { answers := per } with
  | .error (k, e) => "reject@" ++ toString k ++ " " ++ e
  | .ok r =>
    let res := (List.range r.s.nW).map (statusOfM r.s)
    let anyStopped := (List.range r.s.nC).any fun c => r.s.reader c == Cl.Reader.stopped
    "accept " ++ (if res.isEmpty then "-" else String.intercalate "," res) ++ " | labels=" ++ toString r.labels ++
      " readers=" ++ String.intercalate "." ((List.range r.s.nC).map fun c => readerTag (r.s.reader c)) ++
      " closed=" ++ bit r.s.closed ++ " anystopped=" ++ bit anyStopped ++ " polite=" ++ bit r.polite ++ " | -"

/-! ### real-socket scenarios: predictions of the TLS table (C13) and of the listener model (C10) -/

def kvOf (toks : List String) (k : String) : Option String :=
  toks.findSome? fun t => match t.splitOn "=" with | [a, b] => if a = k then some b else none | _ => none

def tlsLine (toks : List String) : String :=
  let b (k : String) := kvOf toks k == some "1"
  let cert : Tls.Cert := match kvOf toks "cert" with
    | some "wrongname" => .wrongName | some "untrusted" => .untrusted | _ => .good
  let addr : Tls.AddrKind := match kvOf toks "addr" with | some "ip" => .ip | some "ip6" => .ip6 | _ => .host
  let c : Tls.Cell := ⟨b "ctls", b "verify", b "stls", cert, addr⟩
  -- `cert=weak`: an identity the TLS library refuses to build an acceptor from: `listen` fails, nobody is served
  if kvOf toks "cert" == some "weak" then
    "refused clear=0 answered=0 served=0 | refused | -" else
  -- the implementation column comes from the general glue (`Tls.gOutcome`: any address text, any certificate) applied to the
  -- address the scenario really uses and to the names the scenario's certificate really carries (`wn=` picks among the
  -- "trusted, wrong name" certificates of the harness); the specification column is the table
  let port := ((kvOf toks "port").filter (· != "0")).getD "3868"
  let address := Tls.addressOf addr port.toList
  let names : List (List Char) := match kvOf toks "cert", kvOf toks "wn", addr with
    | some "wrongname", some "1", .host => [Tls.nOther, Tls.nIp4, Tls.nIp6]            -- the right addresses, asked for by name
    | some "wrongname", some "1", _ => [Tls.nLocalhost, Tls.nOther, Tls.nOtherIp]     -- the right name, asked for by address
    | some "wrongname", _, _ => [Tls.nOther, Tls.nOtherIp]
    | _, _, _ => [Tls.nLocalhost, Tls.nIp4, Tls.nIp6]
  let o := Tls.gOutcome c.clientTls c.verify c.serverTls address ⟨Tls.trusted cert, names⟩
  let cls := match o with | .session => "session" | .plain => "plain" | .refused => "refused"
  let answered := o != .refused
  cls ++ " clear=" ++ bit (Tls.clearText c) ++ " answered=" ++ bit answered ++ " served=" ++ bit answered ++
    " | " ++ (match Tls.expected c with | .session => "session" | .plain => "plain" | .refused => "refused") ++ " | -"

/-- `tlsre`: one client object (TLS on), two connections; each is decided by the configuration and the certificate it meets -/
def tlsreLine (toks : List String) : String :=
  let verify := kvOf toks "verify" == some "1"
  let certOf (k : String) : Tls.Cert := match kvOf toks k with
    | some "wrongname" => .wrongName | some "untrusted" => .untrusted | _ => .good
  let cls (c : Tls.Cert) := match Tls.outcome ⟨true, verify, true, c, .ip⟩ ['3', '8', '6', '8'] with
    | .session => "session" | .plain => "plain" | .refused => "refused"
  let spec (c : Tls.Cert) := match Tls.expected ⟨true, verify, true, c, .ip⟩ with
    | .session => "session" | .plain => "plain" | .refused => "refused"
  cls (certOf "c1") ++ " " ++ cls (certOf "c2") ++ " | " ++ spec (certOf "c1") ++ " " ++ spec (certOf "c2") ++ " | -"

def faultItems (kind : String) (k : Nat) : List Acc.Item × Bool :=   -- (what the peer sends, does it finish a handshake)
  match kind with
  | "none" => ([], true)
  | "stall_handshake" => ([], false)
  | "half_hello" => ([], false)
  | "malformed" => ([.req (900000 + k), .bad], true)
  | "deepnest" => ([.bad], true)
  | "unknown_avp" => ([.req (940000 + k), .bad], true)
  | "oversized" => ([.bad], true)
  | "short" => ([.bad], true)
  | "stall_midframe" => ([], true)
  | "stall_announce_max" => ([], true)
  | "reset" => ([.req (910000 + k), .close], true)
  | "panic" => ([.boom (920000 + k)], true)
  | "panic_sync" => ([.boom (925000 + k)], true)
  | "garbage_close" => ([.bad, .close], true)
  | "hello_close" => ([.bad, .close], true)
  | "plain_req_close" => ([.req (930000 + k), .close], true)
  | _ => ([], true)

def lsnLine (toks : List String) : String :=
  let n (k : String) (d : Nat) := ((kvOf toks k).bind String.toNat?).getD d
  let tls := kvOf toks "tls" == some "1"
  let good := n "good" 1
  let reqs := n "reqs" 3
  let nf := if kvOf toks "fault" == some "none" then 0 else n "nfaulty" 1
  let kind := (kvOf toks "fault").getD "none"
  let cfg : Acc.Cfg := ⟨tls, false⟩
  -- connections: 0..good-1 well behaved, good..good+nf-1 faulty, good+nf the late one
  let conns : List (Nat × List Acc.Item × Bool) :=
    ((List.range good).map fun c => (c, (List.range reqs).map (fun i => Acc.Item.req (c * 1000 + i)), true)) ++
    ((List.range nf).map fun k => (good + k, (faultItems kind k).1,
        -- what is no TLS handshake never completes one on a TLS listener
        (faultItems kind k).2 && !(tls && (kind == "garbage_close" || kind == "hello_close" || kind == "plain_req_close")))) ++
    [(good + nf, [.req 770000, .req 770001], true)]
  let stepOr (s : Acc.St) (l : Acc.Label) : Acc.St := (Acc.step cfg s l).getD s
  let s := conns.foldl (fun s (c, _, _) => stepOr s (.arrive c)) ({} : Acc.St)
  let s := conns.foldl (fun s (c, _, _) => stepOr s (.accept c)) s
  let s := conns.foldl (fun s (c, _, hs) => if hs then stepOr s (.hsDone c) else s) s
  let s := conns.foldl (fun s (c, items, _) => items.foldl (fun s it => stepOr s (.send c it)) s) s
  let s := conns.foldl (fun s (c, items, _) => Acc.serveAll cfg c (items.length + 1) s) s
  let per := (List.range good).map fun c => toString (s.out c).length
  "clients=" ++ String.intercalate "," per ++ " astray=0 late=" ++ toString (s.out (good + nf)).length ++ " | - | -"

/-- real-TCP client scenario (supporting evidence for C11/C12): every request whose 32-octet answer was completely
sent before the cut holds its own answer, every other future fails; without a cut every future holds its own answer -/
def ctcpLine (toks : List String) : String :=
  let n := ((kvOf toks "n").bind String.toNat?).getD 1
  let perm : List Nat := ((kvOf toks "perm").getD "").splitOn "." |>.filterMap String.toNat?
  let cut : Option Nat := (kvOf toks "cut").bind String.toNat?
  let base : Nat := ((((kvOf toks "id").bind String.toNat?).getD 0) * 1000 + 17) % 4294967296
  let delivered : List Nat := match cut with
    | none => perm
    | some c => perm.take (c / 32)
  let res := (List.range n).map fun i =>
    let h := (base + i) % 4294967296
    if delivered.contains i then "got:" ++ toString h ++ ":" ++ toString (h ^^^ 0xabcd) else "err"
  "res=" ++ String.intercalate "," res ++ " | - | -"

def statusStr : Status → String
  | .ok => "ok" | .err => "err" | .bad => "bad"

def errName : Err → String
  | .eof => "eof" | .unknownAvp => "unknownAvp" | .mismatch => "mismatch" | .fuel => "fuel" | .short => "short"
  | .deep => "deep" | .utf8 => "utf8" | .addr => "addr" | .cmd => "cmd" | .app => "app" | .timeRange => "timeRange"
  | .tooLong => "tooLong"


def encStr (e : Enc) : String :=
  match e.err with
  | none => "ok " ++ hexOrDash e.bytes
  | some _ => "err"

/-- `dec <hex>`: the code's decoder (probed configuration), the strict RFC reader, and why -/
def decLine (cfg : Cfg) (D : Dict) (bs : Bytes) : String :=
  let impl := decMsg cfg D.lookup bs
  let strict := decMsg (strictCfg bs.length cfg.tables) D.lookup bs   -- the reader of `Spec.read` (C03_read_correct)
  let implS := match impl with
    | .ok m => "ok " ++ m.dump ++ " " ++ (match m.enc.err with | none => hexOrDash m.enc.bytes | some _ => "encerr") ++
        " " ++ toString m.length
    | .err _ => "err"
    | .panic => "panic"
  let specS := match strict with
    | .ok m => "ok " ++ m.dump ++ " " ++ (match m.enc.err with | none => hexOrDash m.enc.bytes | some _ => "encerr") ++
        " " ++ toString m.length ++ " depth=" ++ toString (depthList m.avps)
    | .err _ => "rej"
    | .panic => "rej"
  let why := match impl with
    | .ok m => "ok lie=" ++ bit (!noLieListB m.avps) ++ " depth=" ++ toString (depthList m.avps) ++
        " n=" ++ toString m.avps.length ++ " full=" ++ bit (bs.length == m.length) ++
        " lieTys=" ++ String.intercalate "," ((lieTysList m.avps).eraseDups.map Ty.name)
    | .err e => "e=" ++ errName e ++ " full=" ++ bit (bs.length == fromBe ((bs.take 4).drop 1))
    | .panic => "panic"
  implS ++ " | " ++ specS ++ " | " ++ why

def defsNamed (D : Dict) (n : String) : List Def := (D.avps.filter fun kd => kd.2.name = n).map (·.2)

def step (s : DState) (line : String) : DState × String :=
  let toks := line.trimAscii.toString.splitOn " "
  -- `repeat <n> <probe ...>`: the harness runs the probe n times on one thread (state that builds up inside the library
  -- must not show); probes are functions of the state, so the model runs it once
  let toks := match toks with
    | "repeat" :: _ :: rest => rest
    | _ => toks
  let plain (st : DState) (a : String) : DState × String := (st, a ++ " | - | -")
  match toks with
  | "cfg" :: limit :: sh :: lo :: rest =>
    -- the probed parameters of the code: nesting limit, leniency per fixed-size type, and (optionally) the command-code
    -- and application-id tables `cmds=a,b,.. apps=x,y,..`; tables that do not fit the header fields (the hypothesis
    -- `Tables.Fit` of the C02/C03 theorems) are refused
    let listOf (k : String) (d : List Nat) : Option (List Nat) :=
      match rest.findSome? fun t => if t.startsWith (k ++ "=") then some ((t.drop (k.length + 1)).toString) else none with
      | none => some d
      | some v => if v = "" then some [] else (v.splitOn ",").mapM String.toNat?
    match limit.toNat?, listOf "cmds" ({} : Tables).cmds, listOf "apps" ({} : Tables).apps with
    | some l, some cmds, some apps =>
      let shl := sh.toList; let lol := lo.toList
      let f : Ty → Dir → Bool := fun t d =>
        match d with
        | .shorter => shl.getD t.idx '0' == '1'
        | .longer => lol.getD t.idx '0' == '1'
      let T : Tables := ⟨cmds, apps⟩
      if T.fitB then plain { s with cfg := ⟨f, l, T⟩ } "ok" else plain s "tables-do-not-fit"
    | _, _, _ => plain s "bad-op"
  | ["dreset"] => plain { s with ms := { s.ms with dict := {} } } "ok"
  | ["dadd", c, v, n, t, m] =>
    match pU32 c, pVendor v, pStr n, tyOfApiName t with
    | some c, some v, some n, some t =>
      plain { s with ms := { s.ms with dict := s.ms.dict.add ⟨c, v, n, t, m == "1"⟩ } } "ok"
    | _, _, _, _ => plain s "bad-op"
  | ["parname", _, n] =>
    -- several threads looking the name up at once get what one thread gets: whether the dictionary carries the name
    match pStr n with
    | some n => plain s (if (s.ms.dict.getByName n).isSome then "ok" else "err")
    | none => plain s "bad-op"
  | ["gdstorm", _] => plain s "ok"                -- another thread busy with the process-wide default dictionary: no effect here
  | ["iomode", _] => plain s "."                 -- vectored writes / how the reader fills its buffer: invisible to the model
  | ["gdadd", _, _, _, _, _] => plain s "ok"      -- the process-wide default dictionary is another object: no effect here
  | ["dbuiltin"] =>
    -- a new object from the built-in document; the cases that use it query a reserved universe the document does not
    -- touch, for which the empty dictionary answers as the built-in one does
    plain { s with ms := { s.ms with dict := {} } } "ok"
  | ["doc_begin"] => plain { s with app := none, doc := [] } "ok"
  | ["app", id, n] =>
    match id.toNat?, pStr n with
    | some id, some n =>
      let doc := match s.app with | some a => a :: s.doc | none => s.doc
      plain { s with app := some ⟨id, n, [], []⟩, doc := doc } "ok"
    | _, _ => plain s "bad-op"
  | ["cmd", c, n] =>
    match c.toNat?, pStr n, s.app with
    | some c, some n, some a => plain { s with app := some { a with cmds := a.cmds ++ [(c, n)] } } "ok"
    | _, _, _ => plain s "bad-op"
  | ["avp", n, c, v, must, t, _items] =>
    -- the number of <item> children under the data element: documentation, no effect on the definition
    match pStr n, pU32 c, pVendor v, (if must = "~" then some none else (pStr must).map some), pStr t, s.app with
    | some n, some c, some v, some must, some t, some a =>
      if _items.toNat?.isNone then plain s "bad-op" else
      plain { s with app := some { a with avps := a.avps ++ [⟨n, c, v, must, t⟩] } } "ok"
    | _, _, _, _, _, _ => plain s "bad-op"
  | ["avp", n, c, v, must, t] =>
    match pStr n, pU32 c, pVendor v, (if must = "~" then some none else (pStr must).map some), pStr t, s.app with
    | some n, some c, some v, some must, some t, some a =>
      plain { s with app := some { a with avps := a.avps ++ [⟨n, c, v, must, t⟩] } } "ok"
    | _, _, _, _, _, _ => plain s "bad-op"
  | "doc_end" :: mode :: _ =>
    let doc := (match s.app with | some a => a :: s.doc | none => s.doc).reverse
    if !docOk s.cfg.tables doc then plain { s with app := none, doc := [] } "bad-op" else
    if mode = "stash" then plain { s with app := none, doc := [], stash := doc :: s.stash } "ok"
    else plain { s with app := none, doc := [], ms := { s.ms with dict := s.ms.dict.loadDoc doc } } "ok"
  | ["dconstruct"] =>
    let D := s.stash.reverse.foldl Dict.loadDoc Dict.empty
    plain { s with stash := [], ms := { s.ms with dict := D } } "ok"
  | ["dget", c, v] =>
    match pU32 c, pVendor v with
    | some c, some v =>
      plain s (match s.ms.dict.get c v with | some d => d.dump | none => "none")
    | _, _ => plain s "bad-op"
  | ["dbyname", n] =>
    match pStr n with
    | some n =>
      let live := defsNamed s.ms.dict n
      (s, (match s.ms.dict.getByName n with | some d => d.dump | none => "none") ++ " | live:" ++
        String.intercalate ";" (live.map Def.dump) ++ " | n=" ++ toString live.length)
    | none => plain s "bad-op"
  | ["dapp", n] =>
    match pStr n with
    | some n => plain s (match s.ms.dict.appByName n with | some x => toString x | none => "none")
    | none => plain s "bad-op"
  | ["dcmd", n] =>
    match pStr n with
    | some n => plain s (match s.ms.dict.cmdByName n with | some x => toString x | none => "none")
    | none => plain s "bad-op"
  | ["dsize"] => plain s (toString s.ms.dict.avps.length)
  | ["tables"] =>
    -- the tables the model works with (probed by `hx probe`), against a second enumeration on the code by this op
    let sorted (l : List Nat) : List Nat := (l.mergeSort (· ≤ ·)).eraseDups
    plain s ("cmds=" ++ String.intercalate "," ((sorted s.cfg.tables.cmds).map toString) ++ " apps=" ++
      String.intercalate "," ((sorted s.cfg.tables.apps).map toString))
  | ["clear"] => plain { s with ms := { s.ms with stack := [] } } "ok"
  | ["enc"] =>
    let m := s.ms.msg
    (s, encStr m.enc ++ " | " ++ hexOrDash (Spec.encode m.abs) ++ " | wf=" ++ bit (wfListB m.avps) ++ " cons=" ++
      bit (consListB m.avps && m.length == 20 + lenList m.avps) ++ " small=" ++ bit (decide (m.length < 16777216)))
  | ["ench"] =>
    let m := s.ms.msg
    let sp := Spec.encode m.abs
    (s, (match m.enc.err with
          | none => "ok " ++ toString m.enc.bytes.length ++ " " ++ toString (fnv m.enc.bytes).toNat
          | some _ => "err") ++ " | " ++ toString sp.length ++ " " ++ toString (fnv sp).toNat ++ " | rep=" ++
      bit m.repB ++ " wf=" ++ bit (wfListB m.avps) ++ " cons=" ++
      bit (consListB m.avps && m.length == 20 + lenList m.avps))
  | ["encha"] =>
    let m := s.ms.msg
    let one (a : Avp) : String := match (encList [a]).err with
      | none => "ok:" ++ toString (encList [a]).bytes.length ++ ":" ++ toString (fnv (encList [a]).bytes).toNat
      | some _ => "err"
    let r := if m.avps.isEmpty then "-" else ";".intercalate (m.avps.map one)
    (s, r ++ " | " ++ r ++ " | -")
  | "encw" :: k :: _ =>
    match k.toNat? with
    | some k =>
      let m := s.ms.msg
      let (ok, acc) := encTo m k
      let sp := Spec.encode m.abs
      (s, (if ok then "ok " ++ toString acc.length ++ " " ++ toString (fnv acc).toNat else "err") ++ " | " ++
        toString sp.length ++ " " ++ toString (fnv sp).toNat ++ " | rep=" ++ bit m.repB ++ " total=" ++
        toString m.enc.bytes.length ++ " cons=" ++ bit (consListB m.avps && m.length == 20 + lenList m.avps) ++
        " wf=" ++ bit (wfListB m.avps))
    | none => plain s "bad-op"
  | ["len"] =>
    let m := s.ms.msg
    (s, toString m.length ++ " | " ++ toString (Spec.encode m.abs).length ++ " | wf=" ++ bit (wfListB m.avps) ++
      " cons=" ++ bit (consListB m.avps && m.length == 20 + lenList m.avps) ++ " small=" ++
      bit (decide (m.length < 16777216)))
  | ["dump"] => plain s s.ms.msg.dump
  | ["vlen"] =>
    -- what the value (`AvpValue::length()`) or AVP (`get_length()`, `get_padding()`) on top of the stack says about itself
    plain s (match s.ms.stack with
      | .val v :: _ => "val " ++ toString v.len
      | .avp a :: _ => "avp " ++ toString a.len ++ " " ++ toString a.padding
      | [] => "-")
  | ["rt"] =>
    let m := s.ms.msg
    let r := match m.enc.err with
      | some _ => "encerr"
      | none =>
        match decMsg s.cfg s.ms.dict.lookup m.enc.bytes with
        | .ok m' => m'.dump
        | .err _ => "err"
        | .panic => "panic"
    (s, r ++ " | " ++ m.dump ++ " | typed=" ++ bit (typedListB s.ms.dict.lookup m.avps) ++ " depth=" ++
      toString (depthList m.avps) ++ " wf=" ++ bit (wfListB m.avps) ++ " cons=" ++
      bit (consListB m.avps && m.length == 20 + lenList m.avps) ++ " n=" ++ toString m.avps.length)
  | ["get", c] =>
    match pU32 c with
    | some c => plain s (match s.ms.msg.getAvpIdx c with | some i => toString i | none => "-")
    | none => plain s "bad-op"
  | ["acc"] => plain s ("[" ++ accDumpList s.ms.msg.avps ++ "]")
  | ["dec", h] =>
    match unhex? h with
    | some bs => (s, decLine s.cfg s.ms.dict bs)
    | none => plain s "bad-op"
  | ["decat", _k, h] =>
    -- the same frame behind `k` other octets, the reader positioned at its first octet: the position is immaterial
    match unhex? h with
    | some bs => (s, decLine s.cfg s.ms.dict bs)
    | none => plain s "bad-op"
  | "tls" :: rest => (s, tlsLine rest)
  | "tlsre" :: rest => (s, tlsreLine rest)
  | ["cliflood", _] => (s, "pending=0 got=0 late=fails,fails,fails | pending=0 got=0 late=fails,fails,fails | -")
  | "tlsrude" :: _ => (s, "refused clear=0 conns=1 | refused | -")   -- a failed handshake is a refusal, whatever `verify` says
  | ["amode", _] => plain s "."                -- how the application waits for its futures is invisible to the model
  | ["rmode", _] => plain s "."                -- how the reader hands out the octets is invisible to the model
  | ["ctracem", evs, ans] => (s, ctracemLine evs ans)
  | ["cliswitch", _] => plain s "first=err reader1_stopped=1"
  | ["tlsq", cells] =>
    -- cells of the table one after the other in one process: each cell's prediction is the cell's own (no state is carried)
    let parts := (cells.splitOn ";").map fun c => (tlsLine (c.splitOn ",")).splitOn " | "
    (s, String.intercalate " ; " (parts.map fun p => p.getD 0 "") ++ " | " ++
        String.intercalate ";" (parts.map fun p => p.getD 1 "") ++ " | -")
  | "lsnpipe" :: rest =>
    -- n pipelined requests, then one on which the handler fails: `serve` writes the n answers, then stops (C08_handler_fails)
    plain s ("answers=" ++ ((kvOf rest "n").getD "0") ++ " end=eof")
  | "lsn" :: rest => (s, lsnLine rest)
  | "ctcp" :: rest => (s, ctcpLine rest)
  | ["ctrace", evs, answers] => (s, ctraceLine evs answers)
  | ["msave"] => plain { s with saved := s.saved.push s.ms.msg, ms := { s.ms with msg := Msg.new 272 4 0 0 0 } } "ok"
  | ["mclear"] => plain { s with saved := #[] } "ok"
  | ["envchild", _, _, _] => plain s "ok"         -- a frame that is fine under the built-in dictionary, in a fresh process
  | ["env", _, _] => plain s "."                -- environment variables of the process: invisible to the model
  | ["freeze"] => plain { s with frozen := some s.ms.dict } "."
  | ["fbyname", n] =>
    -- a by-name construction through the copy kept by `freeze`: it answers from what that copy held, whatever has been
    -- declared in the current dictionary since
    match pStr n, s.frozen with
    | some n, some D =>
      -- (several live definitions with that name: any of them is a correct pick, `ok:*`)
      plain s (match D.getByName n with
        | some d =>
          if (defsNamed D n).length > 1 then "ok:*" else
          "ok:" ++ toString d.code ++ ":" ++ (match d.vendor with | some v => toString v | none => "-") ++ ":" ++ bit d.m
        | none => "err")
    | _, _ => plain s "bad-op"
  | ["sdecnt", n, evs] =>
    match n.toNat?, parseREvs evs with
    | some n, some evs => plain s (sdecLine s.cfg s.ms.dict.lookup n evs)
    | _, _ => plain s "bad-op"
  | ["sdec", n, evs] =>
    match n.toNat?, parseREvs evs with
    | some n, some evs => plain s (sdecLine s.cfg s.ms.dict.lookup n evs)
    | _, _ => plain s "bad-op"
  | ["senc", w] =>
    match parseWEvs w with
    | some w =>
      let (ok, wr) := Codec.encodeTo s.ms.msg w
      (s, (if ok then "ok " else "err ") ++ hexOrDash wr ++ " | " ++ hexOrDash (Spec.encode s.ms.msg.abs) ++ " | -")
    | none => plain s "bad-op"
  | ["sdecmany", n, h] =>
    -- the same acceptable frame n times over one stream, then four hostile announcements on fresh streams
    match n.toNat?, unhex? h with
    | some n, some bs =>
      let r := Codec.decode s.cfg s.ms.dict.lookup [.data bs]
      let okN := match r.out with | .ok _ => n | _ => 0
      let hostile := [[1, 0, 0, 0], [1, 0, 0, 19], [1, 0x10, 0, 1], [1, 0xff, 0xff, 0xff]].map fun (pre : Bytes) =>
        let q := Codec.decode s.cfg s.ms.dict.lookup [.data pre, .data (List.replicate 64 0)]
        (match q.out with | .ok _ => "ok" | _ => "err") ++ "@" ++ toString q.consumed
      plain s ("ok=" ++ toString okN ++ " consumed=" ++ toString (if okN = 0 then r.consumed else n * bs.length) ++
        " hostile=" ++ String.intercalate "," hostile)
    | _, _ => plain s "bad-op"
  | ["servemany", n, h] =>
    -- one connection carrying n copies of an acceptable request, each answered with saved message 0
    match n.toNat?, unhex? h, s.saved[0]? with
    | some n, some bs, some a =>
      let one := serve s.cfg s.ms.dict.lookup [HRes.ok a] [.data bs] []
      if one.calls.length = 1 && one.written.length > 0 then
        plain s ("calls=" ++ toString n ++ " consumed=" ++ toString (n * bs.length) ++ " written=" ++
          toString (n * one.written.length) ++ " end=done")
      else plain s "bad-op"
    | _, _, _ => plain s "bad-op"
  | ["serve", hs, rd, wr] =>
    let hres : Option (List HRes) :=
      if hs = "-" then some [] else
      (hs.splitOn ",").mapM fun t =>
        -- (`~<ms>` / `~y<k>` behind a result: how long the handler's future takes is invisible to the model)
        let t := (t.splitOn "~").headD t
        if t = "err" then some HRes.err
        else if t.startsWith "a" then (t.drop 1).toString.toNat?.bind fun i => s.saved[i]?.map HRes.ok else none
    match hres, parseREvs rd, parseWEvs wr with
    | some hres, some rd, some wr =>
      let log := serve s.cfg s.ms.dict.lookup hres rd wr
      -- spec column: the RFC encodings of the handler's answers, in script order, up to the first handler failure or
      -- the first answer the wire cannot carry - whatever is written must be a prefix of this
      let specW : Bytes := (hres.foldl (fun (acc : Bytes × Bool) h =>
        if acc.2 then acc else
        match h with
        | .ok a => if a.repB then (acc.1 ++ Spec.encode a.abs, false) else (acc.1, true)
        | .err => (acc.1, true)) ([], false)).1
      (s, "calls=[" ++ String.intercalate ";" (log.calls.map Msg.dump) ++ "] written=" ++ hexOrDash log.written ++
        " end=done | " ++ hexOrDash specW ++ " | -")
    | _, _, _ => plain s "bad-op"
  | ["fx", t, h] =>
    match fxTy t, unhex? h with
    | some ty, some bs =>
      if bs.length = (fixedSize ty).getD 0 then plain s (fxLine ty bs) else plain s "bad-op"
    | _, _ => plain s "bad-op"
  | ["psweep", t, lo, n, blk, _threads] =>
    -- the same blocks, swept by several threads at once on the code's side: the checksums are those of `sweep`
    match fxTy t, lo.toNat?, n.toNat?, blk.toNat? with
    | some ty, some lo, some n, some blk =>
      if blk = 0 then plain s "bad-op" else
      let sums := (List.range (n / blk)).map fun k => toString (sweepFold ty blk (lo + k * blk) 0).toNat
      plain s (String.intercalate "," sums)
    | _, _, _, _ => plain s "bad-op"
  | ["sweep", t, lo, n, blk] =>
    match fxTy t, lo.toNat?, n.toNat?, blk.toNat? with
    | some ty, some lo, some n, some blk =>
      if blk = 0 then plain s "bad-op" else
      let sums := (List.range (n / blk)).map fun k => toString (sweepFold ty blk (lo + k * blk) 0).toNat
      plain s (String.intercalate "," sums)
    | _, _, _, _ => plain s "bad-op"
  | ["deca", h] =>
    -- the public `Avp::decode_from` on a cursor: outcome, the AVP, and where the cursor stands afterwards (it may have
    -- been moved past the end by the padding seek)
    match unhex? h with
    | some bs =>
      plain s (match decAvp s.cfg s.ms.dict.lookup (bs.length + 2) 0 (.inRange bs) with
        | .ok (a, c) => "ok " ++ a.dump ++ " pos=" ++ toString (match c with
            | .inRange r => bs.length - r.length | .past o => bs.length + o + 1)
        | .err _ => "err"
        | .panic => "panic")
    | none => plain s "bad-op"
  | ["decg", len, h] =>
    -- the public `Grouped::decode_from(reader, len, dict)`
    match len.toNat?, unhex? h with
    | some len, some bs =>
      plain s (if 1 > s.cfg.limit then "err" else
        match decGroup s.cfg s.ms.dict.lookup (bs.length + 2) 1 len 0 (.inRange bs) with
        | .ok (ms, c) => "ok [" ++ dumpList ms ++ "] pos=" ++ toString (match c with
            | .inRange r => bs.length - r.length | .past o => bs.length + o + 1)
        | .err _ => "err"
        | .panic => "panic")
    | _, _ => plain s "bad-op"
  | ["decq", h] =>
    -- C04: outcome class only (no strict column: it would recurse as deep as the frame nests)
    match unhex? h with
    | some bs =>
      (s, match decMsg s.cfg s.ms.dict.lookup bs with
        | .ok m => "ok | - | ok depth=" ++ toString (depthList m.avps) ++ " n=" ++ toString m.avps.length ++
            " enc=" ++ (match m.enc.err with | none => "ok" | some e => errName e)
        | .err e => "err | - | e=" ++ errName e
        | .panic => "panic | - | panic")
    | none => plain s "bad-op"
  | _ =>
    match parseOp toks with
    | some op =>
      let (ms, st) := s.ms.step s.cfg op
      -- for the by-name operations the oracle column names the definition the dictionary declares (C16)
      let spec := match op with
        | .addByName n | .avpName n =>
          (match s.ms.dict.getByName n with | some d => "def:" ++ d.dump | none => "def:none") ++
            " | n=" ++ toString (defsNamed s.ms.dict n).length ++ " live=" ++
            String.intercalate ";" ((defsNamed s.ms.dict n).map Def.dump)
        | _ => "- | -"
      ({ s with ms := ms }, statusStr st ++ " | " ++ spec)
    | none => plain s "bad-op"

partial def loop (h : IO.FS.Stream) (out : IO.FS.Stream) (s : DState) : IO Unit := do
  let line ← h.getLine
  if line.isEmpty then return ()
  if line.startsWith "#" then
    out.putStrLn "#"
    loop h out s
  else
    let (s', o) := step s line
    out.putStrLn o
    loop h out s'

def main : IO Unit := do loop (← IO.getStdin) (← IO.getStdout) {}
