import Dia.Model
open Dia

def hexVal (c : Char) : Nat :=
  if '0' ≤ c ∧ c ≤ '9' then c.toNat - 48 else if 'a' ≤ c ∧ c ≤ 'f' then c.toNat - 87 else 0
def unhex (s : String) : Bytes :=
  let rec go : List Char → Bytes → Bytes
    | a :: b :: r, acc => go r ((hexVal a * 16 + hexVal b).toUInt8 :: acc)
    | _, acc => acc.reverse
  go s.toList []
def hexDigit (n : Nat) : Char := if n < 10 then Char.ofNat (48 + n) else Char.ofNat (87 + n)
def hex (b : Bytes) : String :=
  String.ofList (b.foldr (fun x acc => hexDigit (x.toNat / 16) :: hexDigit (x.toNat % 16) :: acc) [])

def tyOfIdx : Nat → Ty
  | 1 => .address | 2 => .ipv4 | 3 => .ipv6 | 4 => .identity | 5 => .uri | 6 => .enumerated
  | 7 => .float32 | 8 => .float64 | 9 => .grouped | 10 => .integer32 | 11 => .integer64 | 12 => .octets
  | 13 => .time | 14 => .unsigned32 | 15 => .unsigned64 | 16 => .utf8 | _ => .unknown

def dict : Lookup := fun c v =>
  match v with
  | none => tyOfIdx c.toNat
  | some v => if v.toNat = 99 then (if c.toNat = 20 then .grouped else if c.toNat = 21 then .utf8 else .unknown) else .unknown

def cfg : Cfg := ⟨fun _ _ => true, 32⟩

def step (line : String) : String :=
  match line.trimAscii.toString.splitOn " " with
  | ["dec", h] =>
    let bs := unhex h
    match decMsg cfg dict bs with
    | .ok m =>
      let e := m.enc
      (match e.err with
       | none => s!"ok {hex e.bytes} {m.length}"
       | some _ => s!"ok encerr {m.length}")
    | .err _ => "err"
    | .panic => "panic"
  | _ => "bad-op"

partial def loop (h : IO.FS.Stream) (out : IO.FS.Stream) : IO Unit := do
  let line ← h.getLine
  if line.isEmpty then return ()
  out.putStrLn (step line)
  loop h out

def main : IO Unit := do loop (← IO.getStdin) (← IO.getStdout)
