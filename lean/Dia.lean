import Dia.SpecEq
import Dia.RtTop
import Dia.Hostile
import Dia.CodecThm
import Dia.ServerThm
import Dia.Top
